INIT Init
NEXT Next
INVARIANTS HeldFunctionsAllowed NothingUnclassified GlobalsAllowed NoForbiddenCapabilityWorks GrantedCapabilitiesWork ProbeClosureIsComplete
CHECK_DEADLOCK FALSE
