CONSTANTS
  MaxFiles = 0
INIT TraceInit
NEXT TraceNext
INVARIANTS TypeOK ExitFollowsEnding ValidateAfterAllParsed NothingAfterFailure
POSTCONDITION TraceAccepted
CHECK_DEADLOCK FALSE
