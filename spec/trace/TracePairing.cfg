CONSTANTS
  MaxItems = 0
  MaxTags = 0
  ItemKinds = {}
  CommentKinds = {"a"}
  SplitKinds = FALSE
INIT TraceInit
NEXT TraceNext
INVARIANTS TypeOK StackIsOpenStarts
POSTCONDITION TraceAccepted
CHECK_DEADLOCK FALSE
