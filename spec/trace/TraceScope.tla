------------------------------ MODULE TraceScope ------------------------------
(***************************************************************************)
(* Trace validation of the scope loops of blocks::parse_blocks (C15)       *)
(* against Scope.tla.  Events: walk_file (path, allow, ignore, in_diff),   *)
(* diff_file (path, ignore), and a closing scope_done carrying the set of  *)
(* paths for which parse_file was entered.  The glob decisions are taken   *)
(* from the log (globs of form "set"); what is validated is the loop logic:*)
(* a walked file is examined iff allowed and not ignored and is then taken *)
(* out of the diff map; every remaining diff file is examined iff not      *)
(* ignored; nothing else is examined.                                      *)
(***************************************************************************)
EXTENDS Scope, IOUtils

Rec == ndJsonDeserialize(IOEnv.TRACE)
VARIABLE l
tvars == <<vars, l>>
Ev == Rec[l]
Is(e) == l <= Len(Rec) /\ Rec[l].ev = e
Consume == l' = l + 1 /\ TLCSet(1, IF TLCGet(1) < l THEN l ELSE TLCGet(1))
Evs(name) == {Rec[k] : k \in {j \in 1..Len(Rec) : Rec[j].ev = name}}

WalkPaths == {e.path : e \in Evs("walk_file")}
DiffPaths == {e.path : e \in Evs("diff_file")} \cup {e.path : e \in {x \in Evs("walk_file") : x.in_diff}}
AllowSet  == {e.path : e \in {x \in Evs("walk_file") : x.allow}}
IgnoreSet == {e.path : e \in {x \in Evs("walk_file") : x.ignore}} \cup {e.path : e \in {x \in Evs("diff_file") : x.ignore}}
TrTree == WalkPaths \cup DiffPaths

TraceInit == /\ globs = {[form |-> "set", arg |-> AllowSet]} /\ ignores = {[form |-> "set", arg |-> IgnoreSet]}
             /\ diffPaths = DiffPaths /\ terminal = FALSE
             /\ todoWalk = WalkPaths /\ leftover = DiffPaths /\ examined = {} /\ pc = "walk"
             /\ l = 1 /\ TLCSet(1, 0)

T_walk == /\ Is("walk_file") /\ pc = "walk" /\ Ev.path \in todoWalk
          /\ WalkFile /\ todoWalk' = todoWalk \ {Ev.path}
          /\ Consume
S_walk_done == WalkDone /\ UNCHANGED l
T_diff == /\ Is("diff_file") /\ pc = "diff" /\ Ev.path \in leftover
          /\ DiffFile /\ leftover' = leftover \ {Ev.path}
          /\ Consume
S_diff_done == DiffDone /\ UNCHANGED l
T_done == /\ Is("scope_done") /\ pc = "done"
          /\ examined = {Ev.parsed[k] : k \in 1..Len(Ev.parsed)}
          /\ Consume /\ UNCHANGED vars
TraceNext == T_walk \/ S_walk_done \/ T_diff \/ S_diff_done \/ T_done
TraceSpec == TraceInit /\ [][TraceNext]_tvars
TraceAccepted ==
  IF TLCGet(1) = Len(Rec) THEN TRUE
  ELSE PrintT(<<"TRACE", ToJson([unmatched |-> TLCGet(1) + 1, event |-> Rec[TLCGet(1) + 1]])>>) /\ FALSE
=============================================================================
