CONSTANTS
  GenSparse = FALSE
  GenLen = 0
  FixU1 = TRUE
  MaxOps = 0
  MaxBlocks = 0
  Layouts = {}
  FixF1 = TRUE
  FixDV1 = FALSE
  FixDV2 = FALSE
INIT TraceInit
NEXT TraceNext
INVARIANTS TypeOK QueueOnlyHoldsRemoved
POSTCONDITION TraceAccepted
CHECK_DEADLOCK FALSE
