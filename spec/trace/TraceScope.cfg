CONSTANTS
  Tree <- TrTree
  Hidden = {}
  GitIgnored = {}
  GlobPool = {}
  MaxGlobs = 0
  MaxIgnores = 0
  MaxDiff = 0
  FixS1 = TRUE
  FixQ1 = TRUE
  Quoted = {}
  AnyOrder = TRUE
INIT TraceInit
NEXT TraceNext
INVARIANTS TypeOK NothingOutsideTree
POSTCONDITION TraceAccepted
CHECK_DEADLOCK FALSE
