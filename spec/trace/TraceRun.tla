------------------------------ MODULE TraceRun ------------------------------
(***************************************************************************)
(* Trace validation of one recorded blockwatch run against Run.tla.        *)
(*                                                                         *)
(* The hooks (cargo feature `verif`) log one event per critical section of *)
(* validators::run / run_sync_validators / run_async_validators and of the *)
(* check-lua / check-ai task loops, ordered by a global sequence number    *)
(* taken under one mutex; the driver appends the process' exit status.     *)
(* Every logged event is matched by the corresponding action of Run.tla    *)
(* with its parameters bound to the logged fields; steps the code does not *)
(* log (a thread finishing, a task being scheduled, main moving on) are    *)
(* the same Run actions taken silently.  All Run invariants are evaluated  *)
(* in every state, and the accumulators logged after each merge must equal *)
(* the specification's.  The trace is accepted iff every event is consumed.*)
(***************************************************************************)
EXTENDS Run, Json, IOUtils, SequencesExt

Rec == ndJsonDeserialize(IOEnv.TRACE)

VARIABLE l                     \* index of the next event to consume
tvars == <<vars, l>>

Ev == Rec[l]
Is(e) == l <= Len(Rec) /\ Rec[l].ev = e
Consume == l' = l + 1 /\ TLCSet(1, IF TLCGet(1) < l THEN l ELSE TLCGet(1))
Silent == UNCHANGED l

----------------------------------------------------------------------------
(* Constants of Run.tla, read off the trace *)
Start == Rec[1]                                  \* the run_start event
TrSyncOrder == [k \in 1..Start.sync |-> k]
NamedAV == {Rec[k].v : k \in {j \in 1..Len(Rec) : Rec[j].ev \in {"task_spawn", "tasks_spawned"}}}
AnonAV  == {"anon" \o ToString(k) : k \in 1..(Start.async - Cardinality(NamedAV))}
TrAV    == NamedAV \cup AnonAV
TrAsyncOrder == SetToSeq(TrAV)
SpawnEvs(a) == SelectSeq(Rec, LAMBDA e : e.ev = "task_spawn" /\ e.v = a)
TrBlocksOf == [a \in TrAV |-> [k \in 1..Len(SpawnEvs(a)) |-> <<SpawnEvs(a)[k].file, SpawnEvs(a)[k].idx, SpawnEvs(a)[k].line>>]]
TrKindOf == [a \in TrAV |-> IF a = "check-ai" THEN "ai" ELSE "lua"]
TrAllBlocks == UNION {{TrBlocksOf[a][k] : k \in 1..Len(TrBlocksOf[a])} : a \in TrAV}
TrFileOf == [b \in TrAllBlocks |-> b[1]]
TrFiles == {b[1] : b \in TrAllBlocks}
TrHasKey == Start.has_key
TrSyncOutcomes == [v \in 1..Start.sync |-> {}]
TrTaskOutcomes == [k \in {"lua", "ai"} |-> {[k |-> "emptyattr"]}]
TrMkDiag(a, b, r) == <<a, b[3], r.sev>>          \* <<code, start-tag line, severity>>
TrSevOfDiag(d) == d[3]

----------------------------------------------------------------------------
(* Logged maps: file -> sequence of <<code, line, severity>> *)
SameSeqMap(m, logged) ==      \* exactly the same, order included (extend() preserves order)
  /\ NonEmptyFiles(m) = NonEmptyFiles(logged)
  /\ \A f \in NonEmptyFiles(m) : m[f] = logged[f]

ResOf(e) == IF e.result = "ok" THEN [st |-> "ok", m |-> e.files] ELSE [st |-> "err"]

BlockOf(e) == CHOOSE b \in BlocksSet(e.v) : b[1] = e.file /\ b[2] = e.idx
HasBlock(e) == e.v \in AV /\ \E b \in BlocksSet(e.v) : b[1] = e.file /\ b[2] = e.idx

RetsFor(a, class) ==
  CASE class = "nil" -> IF KindOf[a] = "ai" THEN {[k |-> "ok"]} ELSE {[k |-> "nil"]}
    [] class = "str" -> {[k |-> (IF KindOf[a] = "ai" THEN "text" ELSE "str"), sev |-> s] : s \in 1..4}
    [] class = "err" -> IF KindOf[a] = "ai" THEN (IF HasKey THEN {[k |-> "fault"]} ELSE {[k |-> "nokey"]})
                        ELSE {[k |-> "err"]}
ClassOf(r) == IF r.k \in {"nil", "ok"} THEN "nil" ELSE IF r.k \in {"str", "text"} THEN "str" ELSE "err"

----------------------------------------------------------------------------
TraceInit == Init /\ l = 1 /\ TLCSet(1, 0) /\ Len(Rec) > 0 /\ Rec[1].ev = "run_start"

T_run_start == Is("run_start") /\ l = 1 /\ Consume /\ UNCHANGED vars

\* T_sync ------------------------------------------------------------------
S_SpawnSync == SpawnSync /\ Silent
T_sync_spawned == /\ Is("sync_spawned") /\ spawnI > Len(SyncOrder) /\ Ev.n = Len(SyncOrder)
                  /\ Consume /\ UNCHANGED vars
\* the validator about to be joined has returned what the join event logged
S_FinishSync == /\ Is("join") /\ Ev.side = "sync" /\ joinI <= Len(SyncOrder)
                /\ FinishSync(SyncOrder[joinI], ResOf(Ev)) /\ Silent
T_join_sync == /\ Is("join") /\ Ev.side = "sync" /\ joinI <= Len(SyncOrder)
               /\ thr[SyncOrder[joinI]] = "finished" /\ result[SyncOrder[joinI]] = ResOf(Ev)
               /\ JoinSync /\ Consume
T_merge_sync == /\ Is("merge") /\ Ev.side = "sync" /\ SameSeqMap(syncAcc, Ev.files)
                /\ Consume /\ UNCHANGED vars
S_SyncDone == SyncDone /\ Silent

\* T_async -----------------------------------------------------------------
S_SpawnAV == SpawnAV /\ Silent
T_async_spawned == Is("async_spawned") /\ Ev.n = Len(AsyncOrder) /\ Consume /\ UNCHANGED vars
T_task_spawn == /\ Is("task_spawn") /\ Ev.v \in AV
                /\ avSpawnI[Ev.v] <= Len(BlocksOf[Ev.v])
                /\ BlocksOf[Ev.v][avSpawnI[Ev.v]] = <<Ev.file, Ev.idx, Ev.line>>
                /\ SpawnTask(Ev.v) /\ Consume
T_tasks_spawned == /\ Is("tasks_spawned") /\ Ev.v \in AV /\ Ev.n = Len(BlocksOf[Ev.v])
                   /\ SpawnLoopDone(Ev.v) /\ Consume
T_task_call == Is("task_call") /\ HasBlock(Ev) /\ Call(BlockOf(Ev)) /\ Consume
S_Send == /\ Is("task_ret") /\ HasBlock(Ev) /\ Send(Ev.v, BlockOf(Ev)) /\ Silent
\* the severity of a returned string is logged only when the task is joined: look ahead for it
JoinSevs(b) == LET S == {j \in l..Len(Rec) : Rec[j].ev = "task_join" /\ Rec[j].class = "str"
                                             /\ Rec[j].file = b[1] /\ Rec[j].line = b[3]}
               IN IF S = {} THEN {1} ELSE {Rec[CHOOSE j \in S : \A k \in S : j <= k].sev}
T_task_ret == /\ Is("task_ret") /\ HasBlock(Ev)
              /\ \E r \in {x \in RetsFor(Ev.v, Ev.class) : Ev.class = "str" => x.sev \in JoinSevs(BlockOf(Ev))} :
                    Return(Ev.v, BlockOf(Ev), r)
              /\ Consume
\* a joined nil / err task is not identified by the log: tasks of one class are interchangeable,
\* so the least candidate is taken (no branching)
JoinCands == {b \in BlocksSet(Ev.v) \ joined[Ev.v] :
                /\ tstate[b] = "returned" /\ ClassOf(ret[b]) = Ev.class
                /\ Ev.class = "str" => (b[1] = Ev.file /\ b[3] = Ev.line /\ ret[b].sev = Ev.sev)}
Least(S) == CHOOSE b \in S : TRUE      \* TLC's CHOOSE is deterministic
T_task_join == /\ Is("task_join") /\ Ev.v \in AV /\ JoinCands # {}
               /\ JoinNext(Ev.v, Least(JoinCands))
               /\ Consume
S_AVDone == (\E a \in AV : AVDone(a)) /\ Silent
\* a validator's result reaches the outer JoinSet; a failure nobody logged is the blank-attribute Err
S_EmptyAttr == /\ Is("join") /\ Ev.side = "async" /\ Ev.result # "ok"
               /\ \A a \in AV : avRes[a] # "err"
               /\ (\E a \in AV : EmptyAttrErr(a)) /\ Silent
T_join_async == /\ Is("join") /\ Ev.side = "async"
                /\ \E a \in AV \ outerJoined :
                      /\ avRes[a] = (IF Ev.result = "ok" THEN "ok" ELSE "err")
                      /\ Ev.result = "ok" => SameSeqMap(avAcc[a], Ev.files)
                      /\ OuterJoin(a)
                /\ Consume
T_merge_async == /\ Is("merge") /\ Ev.side = "async" /\ SameSeqMap(asyncAcc, Ev.files)
                 /\ Consume /\ UNCHANGED vars
S_AsyncDone == AsyncDone /\ Silent

\* main --------------------------------------------------------------------
S_MainJoinSync == MainJoinSync /\ Silent
T_merge_final == /\ Is("merge") /\ Ev.side = "final" /\ MainJoinAsync
                 /\ SameSeqMap(report', Ev.files) /\ Consume
\* silent when there is nothing to log: no async validators at all, or the async side failed
S_MainJoinAsync == (Len(AsyncOrder) = 0 \/ asyncRes = "err") /\ MainJoinAsync /\ Silent
T_report == /\ Is("report") /\ final = "report"
            /\ SameBag(report, Ev.files) /\ NonEmptyFiles(report) # {}
            /\ Ev.has_error = HasErrorSeverity(report)
            /\ Consume /\ UNCHANGED vars
\* the process' exit status, observed from outside
T_exit == /\ Is("exit") /\ Finished
          /\ Ev.status = exit
          /\ (Ev.outcome = "error") = (final = "error")
          /\ Ev.reported = (final = "report" /\ NonEmptyFiles(report) # {})   \* silent when clean
          /\ Consume /\ UNCHANGED vars
\* events of threads that are still running after main has returned an error are ignored
T_late == /\ final = "error" /\ l <= Len(Rec) /\ Rec[l].ev \notin {"exit", "report"}
          /\ Consume /\ UNCHANGED vars

\* once the outer loop has returned an Err the runtime is dropped: whatever the cancelled validators
\* and tasks still log (a spawn, a call, a JoinError for a cancelled task) has no effect any more
T_late_async == /\ asyncRes = "err" /\ l <= Len(Rec)
                /\ Rec[l].ev \in {"task_spawn", "tasks_spawned", "task_call", "task_ret", "task_join"}
                /\ Consume /\ UNCHANGED vars

TraceNext ==
  \/ T_run_start \/ S_SpawnSync \/ T_sync_spawned \/ S_FinishSync \/ T_join_sync \/ T_merge_sync \/ S_SyncDone
  \/ S_SpawnAV \/ T_async_spawned \/ T_task_spawn \/ T_tasks_spawned \/ T_task_call \/ S_Send \/ T_task_ret
  \/ T_task_join \/ S_AVDone \/ S_EmptyAttr \/ T_join_async \/ T_merge_async \/ S_AsyncDone
  \/ S_MainJoinSync \/ T_merge_final \/ S_MainJoinAsync \/ T_report \/ T_exit \/ T_late \/ T_late_async

TraceSpec == TraceInit /\ [][TraceNext]_tvars

\* register 1 holds the highest event index consumed on any branch of the search
TraceAccepted ==
  IF TLCGet(1) = Len(Rec) THEN TRUE
  ELSE PrintT(<<"TRACE", ToJson([unmatched |-> TLCGet(1) + 1, event |-> Rec[TLCGet(1) + 1]])>>) /\ FALSE
=============================================================================
