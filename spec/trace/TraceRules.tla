----------------------------- MODULE TraceRules -----------------------------
(***************************************************************************)
(* Trace validation for the line-oriented validators (C06-C09).            *)
(* Each trace event is one observation of the real code:                   *)
(*    [block |-> the block's lines as the code saw them (projected to line *)
(*               records), cfg |-> the rule, obs |-> what blockwatch said] *)
(* For every event the spec's own loop actions (SortStep, UniqueStep, ...) *)
(* are run on the recorded block, all invariants of Rules are evaluated in *)
(* every state, and the observation is compared with the contract.         *)
(* Disagreements are printed as TRACE lines; the trace is accepted when    *)
(* every event has been consumed.                                          *)
(***************************************************************************)
EXTENDS Rules, IOUtils

Rec == ndJsonDeserialize(IOEnv.TRACE)

VARIABLES l,      \* index of the event being examined
          bad     \* number of disagreements so far

tvars == <<vars, l, bad>>

Load(k) == /\ block' = Rec[k].block /\ cfg' = Rec[k].cfg
           /\ i' = 1 /\ prev' = None /\ seen' = {} /\ cnt' = 0 /\ out' = [v |-> "run"]

TraceInit == /\ l = 1 /\ bad = 0
             /\ TLCSet(1, 0)
             /\ Len(Rec) > 0
             /\ block = Rec[1].block /\ cfg = Rec[1].cfg
             /\ i = 1 /\ prev = None /\ seen = {} /\ cnt = 0 /\ out = [v |-> "run"]

\* the specification's own actions, one per loop iteration of the real validator
Step == /\ l <= Len(Rec) /\ ~Done /\ Next /\ UNCHANGED <<l, bad>>

Agrees(c, o) == \/ c.v = "gray"
                \/ /\ c.v = o.v
                   /\ c.v = "viol" /\ cfg.kind # "count" => c.at = o.at
                   /\ c.v = "viol" /\ cfg.kind = "count" => c.actual = o.actual

Check == /\ l <= Len(Rec) /\ Done
         /\ LET c == Contract(block, cfg)
                o == Rec[l].obs
            IN /\ bad' = IF Agrees(c, o) THEN bad ELSE bad + 1
               /\ IF Agrees(c, o) THEN TRUE
                  ELSE PrintT(<<"TRACE", ToJson([l |-> l, id |-> Rec[l].id, expect |-> c, obs |-> o])>>)
         /\ TLCSet(1, l)
         /\ l' = l + 1
         /\ IF l < Len(Rec) THEN Load(l + 1) ELSE UNCHANGED vars

TraceNext == Step \/ Check

TraceSpec == TraceInit /\ [][TraceNext]_tvars

\* every event consumed (register 1 holds the highest event checked)
TraceAccepted == TLCGet(1) = Len(Rec)
=============================================================================
