CONSTANTS
  AllDets <- TrAllDets
  FileSet <- TrFileSet
  NBlocks = 1
  NeedsSpace = {}
INIT TraceInit
NEXT TraceNext
INVARIANTS TypeOK DetectComplete OnlyEffective Conservation
POSTCONDITION TraceAccepted
CHECK_DEADLOCK FALSE
