------------------------------ MODULE TraceDiff ------------------------------
(***************************************************************************)
(* Trace validation of the diff walk and of the touch flags (C01, C02)     *)
(* against DiffTouch.tla, for one file section of a real run.              *)
(*                                                                         *)
(* Events (hooks in diff_parser::line_changes and blocks::parse_file):     *)
(*   dl       one per hunk line: kind, source/target line number, length   *)
(*            of the deleted-lines queue and of the change list afterwards *)
(*   hunk_end after the per-hunk clear_or_fold                             *)
(*   changes  the final LineChange list (line, whole, byte ranges)         *)
(*   block    one per parsed block: tag span, content span, both flags,    *)
(*            kept (after the filter)                                      *)
(* Each dl / hunk_end event must be the matching DiffTouch action          *)
(* (StepRemoved / StepAdded / StepSep / StepOther) with the logged queue   *)
(* and list lengths; the final list must have the lines and whole-flags    *)
(* the specification computes; every block's flags must be what            *)
(* HitsContent / HitsTag give on the logged geometry and ranges.  The walk *)
(* is validated as coded (DV1/DV2 switches FALSE): this binds the          *)
(* implementation-shaped model to the code on inputs far larger than the   *)
(* exhaustive bounds, so that the known-finding attribution rests on a     *)
(* model that is continuously checked against real executions.             *)
(***************************************************************************)
EXTENDS DiffTouch, IOUtils

Rec == ndJsonDeserialize(IOEnv.TRACE)
VARIABLE l
tvars == <<vars, l>>
Ev == Rec[l]
Is(e) == l <= Len(Rec) /\ Rec[l].ev = e
Consume == l' = l + 1 /\ TLCSet(1, IF TLCGet(1) < l THEN l ELSE TLCGet(1))

\* the typed lines of the section, read off the dl / hunk_end events
Typed == SelectSeq(Rec, LAMBDA e : e.ev \in {"dl", "hunk_end"})
KindOf(e) == IF e.ev = "hunk_end" THEN "sep"
             ELSE CASE e.k = "+" -> "+" [] e.k = "-" -> "-" [] e.k = " " -> "sep" [] OTHER -> "other"
TrDl == [k \in 1..Len(Typed) |-> [t |-> KindOf(Typed[k]), src |-> Typed[k].src, tgt |-> Typed[k].tgt, op |-> k]]

TraceInit == /\ ops = <<>> /\ blocks = <<>> /\ dl = TrDl
             /\ i = 1 /\ q = <<>> /\ prevAdded = FALSE /\ lastTgt = 0 /\ changes = <<>> /\ pc = "walk"
             /\ l = 1 /\ TLCSet(1, 0)

\* one hunk line / hunk end = one action of the specification; the logged lengths must agree afterwards
T_step == /\ (Is("dl") \/ Is("hunk_end")) /\ pc = "walk"
          /\ (StepRemoved \/ StepAdded \/ StepSep \/ StepOther)
          /\ Len(q') = Ev.q /\ Len(changes') = Ev.n
          /\ Consume
S_done == WalkDone /\ UNCHANGED l

LW(c) == <<c.line, c.whole>>
T_changes == /\ Is("changes") /\ pc = "done"
             /\ Len(Ev.changes) = Len(changes)
             /\ \A k \in 1..Len(changes) : LW(changes[k]) = <<Ev.changes[k].line, Ev.changes[k].whole>>
             /\ Consume /\ UNCHANGED vars

\* flags of one block from the logged geometry and the logged ranges (linear scan, byte ranges)
GeoOf(e) == [tag0l |-> e.tag[1], tag0c |-> e.tag[2], tag1l |-> e.tag[3], tag1c |-> e.tag[4],
             cs_l |-> e.content[1], cs_c |-> e.content[2], ce_l |-> e.content[3], ce_c |-> e.content[4], mb |-> 0]
LoggedChanges == (CHOOSE e \in {Rec[k] : k \in 1..Len(Rec)} : e.ev = "changes").changes
Pieces(c) == IF c.whole THEN {[line |-> c.line, whole |-> TRUE, r0 |-> 0, r1 |-> 0]}
             ELSE {[line |-> c.line, whole |-> FALSE, r0 |-> c.ranges[k][1], r1 |-> c.ranges[k][2]] : k \in 1..Len(c.ranges)}
AllPieces == UNION {Pieces(LoggedChanges[k]) : k \in 1..Len(LoggedChanges)}
ContentFlag(e) == \E c \in AllPieces : HitsContent(GeoOf(e), c, FALSE)
TagFlag(e) == \E c \in AllPieces : HitsTag(GeoOf(e), c, FALSE)
T_block == /\ Is("block") /\ pc = "done"
           /\ Ev.content_mod = ContentFlag(Ev) /\ Ev.tag_mod = TagFlag(Ev)
           /\ Ev.kept = (Ev.filter_all \/ Ev.content_mod \/ Ev.tag_mod)
           /\ Consume /\ UNCHANGED vars

TraceNext == T_step \/ S_done \/ T_changes \/ T_block
TraceSpec == TraceInit /\ [][TraceNext]_tvars
TraceAccepted ==
  IF TLCGet(1) = Len(Rec) THEN TRUE
  ELSE PrintT(<<"TRACE", ToJson([unmatched |-> TLCGet(1) + 1, event |-> Rec[TLCGet(1) + 1]])>>) /\ FALSE
=============================================================================
