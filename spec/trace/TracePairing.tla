---------------------------- MODULE TracePairing ----------------------------
(***************************************************************************)
(* Trace validation of the tag-pairing loop (C03, C12) against Pairing.tla.*)
(* Events (hooks in block_parser::parse_blocks_from_comments), many parsed *)
(* files concatenated, each introduced by a `reset` event:                 *)
(*   push  a start tag is pushed          (line, col of its '<'; depth)    *)
(*   pop   an end tag closes the top      (line, col of the START it       *)
(*                                         closes; depth afterwards)       *)
(*   err_end   an end tag with nothing open                                *)
(*   pair_done end of the comments        (open starts, blocks so far)     *)
(* Each event must be the matching Pairing action; a pop must close the    *)
(* innermost open start (the one on top of the specification's stack);     *)
(* ErrIffUnbalanced and the other invariants are evaluated in every state. *)
(***************************************************************************)
EXTENDS Pairing, IOUtils

Rec == ndJsonDeserialize(IOEnv.TRACE)
VARIABLE l
tvars == <<vars, l>>
Ev == Rec[l]
Is(e) == l <= Len(Rec) /\ Rec[l].ev = e
Consume == l' = l + 1 /\ TLCSet(1, IF TLCGet(1) < l THEN l ELSE TLCGet(1))

\* the tag events of the segment that starts after position p
SegEnd(p) == LET R == {k \in (p + 1)..Len(Rec) : Rec[k].ev = "reset"} IN
             IF R = {} THEN Len(Rec) + 1 ELSE CHOOSE k \in R : \A j \in R : k <= j
TagEvs(p) == SelectSeq(SubSeq(Rec, p + 1, SegEnd(p) - 1), LAMBDA e : e.ev \in {"push", "pop", "err_end"})
SegItems(p) == [k \in 1..Len(TagEvs(p)) |-> [k |-> "cmt", tags |-> <<IF TagEvs(p)[k].ev = "push" THEN "S" ELSE "E">>, ck |-> "a"]]

TraceInit == /\ l = 1 /\ TLCSet(1, 0) /\ Len(Rec) > 0 /\ Rec[1].ev = "reset"
             /\ items = <<>> /\ phase = 1 /\ ti = 1 /\ stack = <<>> /\ blocks = <<>> /\ err = "none" /\ pc = "done"

T_reset == /\ Is("reset") /\ pc = "done"
           /\ items' = SegItems(l) /\ phase' = 1 /\ ti' = 1 /\ stack' = <<>> /\ blocks' = <<>> /\ err' = "none" /\ pc' = "scan"
           /\ Consume
\* identity of a start tag = (line, col) logged when it was pushed
PushedAt(idx) == LET e == TagEvs(CHOOSE p \in 1..l : Rec[p].ev = "reset" /\ SegEnd(p) > l)[idx] IN <<e.line, e.col>>
T_push == /\ Is("push") /\ PushStart /\ Len(stack') = Ev.depth /\ Consume
T_pop  == /\ Is("pop") /\ stack # <<>>
          /\ PushedAt(stack[Len(stack)]) = <<Ev.line, Ev.col>>        \* innermost-first
          /\ PopEnd /\ Len(stack') = Ev.depth /\ Consume
T_err_end == Is("err_end") /\ ErrUnexpectedEnd /\ Consume
T_pair_done == /\ Is("pair_done")
               /\ IF pc = "done" THEN err = "unexpected_end" /\ UNCHANGED vars
                  ELSE /\ ti > NTags /\ Len(stack) = Ev.open /\ Len(blocks) = Ev.blocks
                       /\ (ErrUnclosed \/ FinishSort)
               /\ Consume
TraceNext == T_reset \/ T_push \/ T_pop \/ T_err_end \/ T_pair_done
TraceSpec == TraceInit /\ [][TraceNext]_tvars
TraceAccepted ==
  IF TLCGet(1) = Len(Rec) THEN TRUE
  ELSE PrintT(<<"TRACE", ToJson([unmatched |-> TLCGet(1) + 1, event |-> Rec[TLCGet(1) + 1]])>>) /\ FALSE
=============================================================================
