CONSTANTS
  SyncOrder <- TrSyncOrder
  AsyncOrder <- TrAsyncOrder
  BlocksOf <- TrBlocksOf
  KindOf <- TrKindOf
  FileOf <- TrFileOf
  Files <- TrFiles
  SyncOutcomes <- TrSyncOutcomes
  TaskOutcomes <- TrTaskOutcomes
  HasKey <- TrHasKey
  MkDiag <- TrMkDiag
  SevOfDiag <- TrSevOfDiag
INIT TraceInit
NEXT TraceNext
INVARIANTS TypeOK NoLostNoDup FailClosed CompleteOnReport ExitIffError SilentWhenClean AtMostOnce ExactlyOnceOnSuccess OneRequest Deterministic
POSTCONDITION TraceAccepted
CHECK_DEADLOCK FALSE
