CONSTANTS
  Lines = {}
  Configs = {}
  MaxLen = 100000
INIT TraceInit
NEXT TraceNext
INVARIANTS ImplMeetsContract AtMostOneViolation
POSTCONDITION TraceAccepted
CHECK_DEADLOCK FALSE
