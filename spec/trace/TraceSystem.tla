----------------------------- MODULE TraceSystem -----------------------------
(***************************************************************************)
(* Trace validation of a complete run against Blockwatch.tla.  The hook    *)
(* events are projected to stage events:                                   *)
(*   diff    (any diff-walk event)        parse  (parse_file entered)      *)
(*   scoped  (scope_done)                 detect (detect_start)            *)
(*   detected(detect_done)                run    (run_start)               *)
(*   report  (report printed)             exit   (status, outcome, list?)  *)
(* plus `parsed_ok` after every parse_file whose pairing completed.  The   *)
(* stages must come in the specification's order, an error ending must     *)
(* come from the stage that was active, and the exit status must follow    *)
(* the ending.  Many runs are validated by one TLC process: each run starts *)
(* with a `begin` event (list mode, diff on stdin, number of files parsed)  *)
(* that re-initialises the specification's variables.                      *)
(***************************************************************************)
EXTENDS Blockwatch, Json, IOUtils

Rec == ndJsonDeserialize(IOEnv.TRACE)
VARIABLE l
tvars == <<vars, l>>
Ev == Rec[l]
Is(e) == l <= Len(Rec) /\ Rec[l].ev = e
Consume == l' = l + 1 /\ TLCSet(1, IF TLCGet(1) < l THEN l ELSE TLCGet(1))
Silent == UNCHANGED l
\* the first event is the `begin` of the first run
TraceInit == /\ stage = "flags" /\ ending = "none" /\ listMode = Rec[1].list /\ hasDiff = Rec[1].has_diff
             /\ toParse = Rec[1].n /\ parsed = 0 /\ diags = 0 /\ hasError = FALSE /\ exit = -1
             /\ l = 2 /\ TLCSet(1, 1)
\* the next run: only after the previous one has ended
T_begin == /\ Is("begin") /\ stage = "end"
           /\ stage' = "flags" /\ ending' = "none" /\ listMode' = Ev.list /\ hasDiff' = Ev.has_diff
           /\ toParse' = Ev.n /\ parsed' = 0 /\ diags' = 0 /\ hasError' = FALSE /\ exit' = -1
           /\ Consume

S_FlagsOk == l <= Len(Rec) /\ Ev.ev \notin {"exit", "begin"} /\ FlagsOk /\ Silent
T_diff    == Is("diff") /\ stage = "diff" /\ Consume /\ UNCHANGED vars
S_DiffOk  == (Is("parse") \/ Is("scoped")) /\ DiffOk /\ Silent
T_parse   == Is("parse") /\ stage = "scope" /\ toParse > 0 /\ Consume /\ UNCHANGED vars
T_parsed  == Is("parsed_ok") /\ ParseOk /\ Consume
T_scoped  == Is("scoped") /\ ScopeDone /\ Consume
S_ToDetect == Is("detect") /\ ToDetect /\ Silent
T_detect  == Is("detect") /\ stage = "detect" /\ Consume /\ UNCHANGED vars
T_detected == Is("detected") /\ DetectOk /\ Consume
T_run     == Is("run") /\ stage = "run" /\ Consume /\ UNCHANGED vars
T_report  == /\ Is("report") /\ stage = "run" /\ stage' = "print" /\ diags' = Ev.n /\ hasError' = Ev.has_error
             /\ Ev.n > 0 /\ UNCHANGED <<ending, listMode, hasDiff, toParse, parsed, exit>> /\ Consume
\* endings, decided by the exit event together with the stage reached
T_exit == /\ Is("exit")
          /\ \/ (Ev.outcome = "reject" /\ FlagsReject)
             \/ (Ev.outcome = "error" /\ (FlagsReject \/ DiffErr \/ ParseErr \/ DetectErr \/ RunErr))
             \/ (Ev.outcome = "ok" /\ Ev.list /\ List)
             \/ (Ev.outcome = "ok" /\ ~Ev.list /\ stage = "print" /\ PrintReport)
             \/ (Ev.outcome = "ok" /\ ~Ev.list /\ stage = "run" /\ diags = 0 /\ ~Ev.reported /\ End("report", 0)
                 /\ UNCHANGED <<listMode, hasDiff, toParse, parsed, diags, hasError>>)
          /\ exit' = Ev.status
          /\ Consume
TraceNext == T_begin \/ S_FlagsOk \/ T_diff \/ S_DiffOk \/ T_parse \/ T_parsed \/ T_scoped \/ S_ToDetect \/ T_detect \/ T_detected
             \/ T_run \/ T_report \/ T_exit
TraceSpec == TraceInit /\ [][TraceNext]_tvars
TraceAccepted ==
  IF TLCGet(1) = Len(Rec) THEN TRUE
  ELSE PrintT(<<"TRACE", ToJson([unmatched |-> TLCGet(1) + 1, event |-> Rec[TLCGet(1) + 1]])>>) /\ FALSE
=============================================================================
