----------------------------- MODULE TraceDetect -----------------------------
(***************************************************************************)
(* Trace validation of recorded `detect_validators` loops against         *)
(* Detect.tla -- many runs per TLC process: every `detect_start` event     *)
(* (re)initialises the specification's variables from the logged context.  *)
(* (FileSet is 1..MaxCtx, the longest context of the batch; a shorter run  *)
(* leaves the surplus pseudo-files out of `todo`, they need nothing.)      *)
(* The context (the detectors that fire on each kept block,                *)
(* projected from the logged attributes) is the specification's `needs`;   *)
(* one pseudo-file per block, so that any logged visiting order is a       *)
(* PickFile order.  Every pop / push-back / break is the matching Detect   *)
(* action; DetectComplete is evaluated in every state, so a loop that      *)
(* stops early or loses a detector is rejected even when the blocks it     *)
(* skipped happen to need nothing on this input's order.                   *)
(***************************************************************************)
EXTENDS Detect, Json, IOUtils

Rec == ndJsonDeserialize(IOEnv.TRACE)
VARIABLE l
tvars == <<vars, l>>
Ev == Rec[l]
Is(e) == l <= Len(Rec) /\ Rec[l].ev = e
Consume == l' = l + 1 /\ TLCSet(1, IF TLCGet(1) < l THEN l ELSE TLCGet(1))
Silent == UNCHANGED l
SetOf(s) == {s[k] : k \in 1..Len(s)}

TrAllDets == <<"affects", "keep-sorted", "keep-unique", "line-pattern", "line-count", "check-ai", "check-lua">>
Starts == {k \in 1..Len(Rec) : Rec[k].ev = "detect_start"}
Max(S) == CHOOSE x \in S : \A y \in S : y <= x
TrFileSet == 1..Max({Len(Rec[k].ctx) : k \in Starts} \cup {1})
\* the context of the run that starts with event e: one pseudo-file per kept block (ctx = fires-sets)
NeedsOf(e) == [f \in TrFileSet |-> [b \in {1} |-> IF f <= Len(e.ctx) THEN SetOf(e.ctx[f]) ELSE {}]]

StartRun(e) ==
  /\ needs' = NeedsOf(e)
  /\ enabled' = SetOf(e.enabled) /\ disabled' = SetOf(e.disabled)
  /\ stack' = EffStack(SetOf(e.enabled), SetOf(e.disabled))
  /\ undet' = <<>> /\ todo' = 1..Len(e.ctx) /\ cur' = "none" /\ bi' = 0 /\ inst' = <<>> /\ pc' = "file"

TraceInit ==
  /\ needs = NeedsOf(Rec[1])
  /\ enabled = SetOf(Rec[1].enabled) /\ disabled = SetOf(Rec[1].disabled)
  /\ stack = EffStack(SetOf(Rec[1].enabled), SetOf(Rec[1].disabled))
  /\ undet = <<>> /\ todo = 1..Len(Rec[1].ctx) /\ cur = "none" /\ bi = 0 /\ inst = <<>> /\ pc = "file"
  /\ l = 1 /\ TLCSet(1, 0)

\* the first event of a run: the logged stack is the effective stack; a later run starts only after the previous is done
T_detect_start == /\ Is("detect_start")
                  /\ IF l = 1 THEN stack = Ev.stack /\ UNCHANGED vars
                     ELSE pc = "done" /\ StartRun(Ev) /\ EffStack(SetOf(Ev.enabled), SetOf(Ev.disabled)) = Ev.stack
                  /\ Consume
\* the next visited block is some not yet visited block on which the logged detectors fire
S_PickFile == /\ Is("visit_block") /\ pc = "file"
              /\ \E f \in todo : /\ needs[f][1] = SetOf(Ev.fires)
                                 /\ cur' = f /\ todo' = todo \ {f}
              /\ bi' = 1 /\ pc' = "block"
              /\ UNCHANGED <<needs, enabled, disabled, stack, undet, inst>> /\ Silent
T_visit_block == Is("visit_block") /\ pc = "block" /\ bi <= NBlocks /\ Len(stack) = Ev.n /\ VisitBlock /\ Consume
S_NextFile == pc = "block" /\ bi > NBlocks /\ VisitBlock /\ Silent
T_detected == /\ Is("detected") /\ pc = "pop" /\ stack # <<>> /\ stack[Len(stack)] = Ev.v
              /\ Ev.v \in needs[cur][bi] /\ PopDetector /\ Consume
T_undetected == /\ Is("undetected") /\ pc = "pop" /\ stack # <<>> /\ stack[Len(stack)] = Ev.v
                /\ Ev.v \notin needs[cur][bi] /\ PopDetector /\ Consume
T_push_back == Is("push_back") /\ pc = "pop" /\ stack = <<>> /\ undet = Ev.stack /\ undet # <<>> /\ EndBlock /\ Consume
T_break_all == Is("break_all") /\ pc = "pop" /\ stack = <<>> /\ undet = <<>> /\ EndBlock /\ Consume
S_AllFilesDone == Is("detect_done") /\ AllFilesDone /\ Silent
T_detect_done == /\ Is("detect_done") /\ pc = "done"
                 /\ Len(inst) = Ev.n
                 /\ Consume /\ UNCHANGED vars

TraceNext == T_detect_start \/ S_PickFile \/ T_visit_block \/ S_NextFile \/ T_detected \/ T_undetected
             \/ T_push_back \/ T_break_all \/ S_AllFilesDone \/ T_detect_done
TraceSpec == TraceInit /\ [][TraceNext]_tvars

TraceAccepted ==
  IF TLCGet(1) = Len(Rec) THEN TRUE
  ELSE PrintT(<<"TRACE", ToJson([unmatched |-> TLCGet(1) + 1, event |-> Rec[TLCGet(1) + 1]])>>) /\ FALSE
=============================================================================
