----------------------------- MODULE TraceDetect -----------------------------
(***************************************************************************)
(* Trace validation of one recorded `detect_validators` loop against       *)
(* Detect.tla.  The context (the detectors that fire on each kept block,   *)
(* projected from the logged attributes) is the specification's `needs`;   *)
(* one pseudo-file per block, so that any logged visiting order is a       *)
(* PickFile order.  Every pop / push-back / break is the matching Detect   *)
(* action; DetectComplete is evaluated in every state, so a loop that      *)
(* stops early or loses a detector is rejected even when the blocks it     *)
(* skipped happen to need nothing on this input's order.                   *)
(***************************************************************************)
EXTENDS Detect, Json, IOUtils

Rec == ndJsonDeserialize(IOEnv.TRACE)
VARIABLE l
tvars == <<vars, l>>
Ev == Rec[l]
Is(e) == l <= Len(Rec) /\ Rec[l].ev = e
Consume == l' = l + 1 /\ TLCSet(1, IF TLCGet(1) < l THEN l ELSE TLCGet(1))
Silent == UNCHANGED l
SetOf(s) == {s[k] : k \in 1..Len(s)}

Start == Rec[1]                        \* detect_start, with ctx = fires-sets of all kept blocks
TrAllDets == <<"affects", "keep-sorted", "keep-unique", "line-pattern", "line-count", "check-ai", "check-lua">>
TrFileSet == 1..Len(Start.ctx)
TrNeeds == [f \in TrFileSet |-> [b \in {1} |-> SetOf(Start.ctx[f])]]

TraceInit ==
  /\ needs = TrNeeds
  /\ enabled = SetOf(Start.enabled) /\ disabled = SetOf(Start.disabled)
  /\ stack = EffStack(SetOf(Start.enabled), SetOf(Start.disabled))
  /\ undet = <<>> /\ todo = FileSet /\ cur = "none" /\ bi = 0 /\ inst = <<>> /\ pc = "file"
  /\ l = 1 /\ TLCSet(1, 0)

T_detect_start == Is("detect_start") /\ l = 1 /\ stack = Ev.stack /\ Consume /\ UNCHANGED vars
\* the next visited block is some not yet visited block on which the logged detectors fire
S_PickFile == /\ Is("visit_block") /\ pc = "file"
              /\ \E f \in todo : /\ needs[f][1] = SetOf(Ev.fires)
                                 /\ cur' = f /\ todo' = todo \ {f}
              /\ bi' = 1 /\ pc' = "block"
              /\ UNCHANGED <<needs, enabled, disabled, stack, undet, inst>> /\ Silent
T_visit_block == Is("visit_block") /\ pc = "block" /\ bi <= NBlocks /\ Len(stack) = Ev.n /\ VisitBlock /\ Consume
S_NextFile == pc = "block" /\ bi > NBlocks /\ VisitBlock /\ Silent
T_detected == /\ Is("detected") /\ pc = "pop" /\ stack # <<>> /\ stack[Len(stack)] = Ev.v
              /\ Ev.v \in needs[cur][bi] /\ PopDetector /\ Consume
T_undetected == /\ Is("undetected") /\ pc = "pop" /\ stack # <<>> /\ stack[Len(stack)] = Ev.v
                /\ Ev.v \notin needs[cur][bi] /\ PopDetector /\ Consume
T_push_back == Is("push_back") /\ pc = "pop" /\ stack = <<>> /\ undet = Ev.stack /\ undet # <<>> /\ EndBlock /\ Consume
T_break_all == Is("break_all") /\ pc = "pop" /\ stack = <<>> /\ undet = <<>> /\ EndBlock /\ Consume
S_AllFilesDone == Is("detect_done") /\ AllFilesDone /\ Silent
T_detect_done == /\ Is("detect_done") /\ pc = "done"
                 /\ Len(inst) = Ev.n
                 /\ Consume /\ UNCHANGED vars

TraceNext == T_detect_start \/ S_PickFile \/ T_visit_block \/ S_NextFile \/ T_detected \/ T_undetected
             \/ T_push_back \/ T_break_all \/ S_AllFilesDone \/ T_detect_done
TraceSpec == TraceInit /\ [][TraceNext]_tvars

TraceAccepted ==
  IF TLCGet(1) = Len(Rec) THEN TRUE
  ELSE PrintT(<<"TRACE", ToJson([unmatched |-> TLCGet(1) + 1, event |-> Rec[TLCGet(1) + 1]])>>) /\ FALSE
=============================================================================
