------------------------------- MODULE Rules -------------------------------
(***************************************************************************)
(* The four line-oriented validators of blockwatch                         *)
(*   keep-sorted (C06), keep-unique (C07), line-pattern (C08),             *)
(*   line-count (C09)                                                      *)
(* as (i) an implementation-shaped loop -- one action per iteration of the *)
(* `for line in content.lines()` loops in src/validators/*.rs, with the    *)
(* early `break` -- and (ii) a declarative contract over the key sequence. *)
(* TLC checks (i) against (ii) for every block of up to MaxLen lines over  *)
(* the alphabet Lines and every configuration in Configs, and emits one    *)
(* JSON case per behaviour that the conformance harness replays against    *)
(* the real validators.                                                    *)
(*                                                                         *)
(* Text is modelled as sequences of code points so that order, equality    *)
(* and character classes are computable in TLA+.                           *)
(***************************************************************************)
EXTENDS Integers, Sequences, FiniteSets, TLC, Json

CONSTANTS Lines,     \* set of line records [form, key, indent, trail, sfx]
          Configs,   \* set of rule configurations (records, see below)
          MaxLen     \* maximal number of content lines

VARIABLES block, cfg,          \* input, chosen in Init and never changed
          i,                   \* loop cursor (index of the next line)
          prev,                \* keep-sorted: last key seen, <<>> wrapped
          seen,                \* keep-unique: set of keys seen so far
          cnt,                 \* line-count: non-blank lines so far
          out                  \* [v |-> "run"] or the final result record

vars == <<block, cfg, i, prev, seen, cnt, out>>

None == [none |-> TRUE]
Some(k) == [none |-> FALSE, k |-> k]

Min(a, b) == IF a < b THEN a ELSE b

----------------------------------------------------------------------------
(* Code-point sequences *)

LexLess(a, b) ==
  \E k \in 1..(Min(Len(a), Len(b)) + 1) :
     /\ \A j \in 1..(k-1) : a[j] = b[j]
     /\ \/ (k > Len(a) /\ k <= Len(b))
        \/ (k <= Len(a) /\ k <= Len(b) /\ a[k] < b[k])

PrefixOf(form) == CASE form = "id" -> <<105, 100, 58, 32>>      \* "id: "
                    [] form = "kv" -> <<107, 61>>               \* "k="
                    [] form = "ide" -> <<105, 100, 58>>         \* "id:"  (no space: the key may be empty)
                    [] OTHER       -> <<>>
SuffixOf(sfx)  == IF sfx = 0 THEN <<>> ELSE <<32, 35, 48 + sfx>> \* " #1", " #2"

\* "uws": a line made only of non-ASCII white space (U+3000, U+00A0): blank like any other white-space-only line
IsBlank(l) == l.form \in {"blank", "ws", "uws"}

\* the line with surrounding whitespace removed
Trimmed(l) == IF IsBlank(l) THEN <<>> ELSE PrefixOf(l.form) \o l.key \o SuffixOf(l.sfx)

\* The comparable key of a line under key-extraction mode pat, or None when the line is skipped.
\*   "none"  : the trimmed line, blank lines skipped
\*   "group" : regex  id: (?P<value>[^ ]+)   -> the named group
\*   "plain" : regex  k=[^ ]+                -> the whole match
\*   "gstar" : regex  id:(?P<value>[^ ]*)    -> the named group, which may be EMPTY: a matching line with an empty
\*             key is a key line like any other ("id:" alone, or "id: x" where the group stops at the space)
KeyOf(l, pat) ==
  CASE pat = "none"  -> IF IsBlank(l) THEN None ELSE Some(Trimmed(l))
    [] pat = "group" -> IF l.form = "id" THEN Some(l.key) ELSE None
    [] pat = "plain" -> IF l.form = "kv" THEN Some(PrefixOf("kv") \o l.key) ELSE None
    [] pat = "gstar" -> IF l.form = "ide" THEN Some(l.key) ELSE IF l.form = "id" THEN Some(<<>>) ELSE None
    \* "galt": regex (?:id: (?P<value>[^ ]+)|k=[^ ]+) -- the `value` group takes part in only one alternative: a line
    \*         matching through the other one has no `value`, its key is the whole match (decided per line, not per regex)
    \* "ganch": regex ^id: (?P<value>[^ ]+) -- anchored at the start of the RAW line: indented lines do not match
    [] pat = "ganch" -> IF l.form = "id" /\ l.indent = 0 THEN Some(l.key) ELSE None
    [] pat = "galt"  -> IF l.form = "id" THEN Some(l.key) ELSE IF l.form = "kv" THEN Some(PrefixOf("kv") \o l.key) ELSE None

\* Numbers: the decimal spellings  -?[0-9]+(\.[0-9])?  with their value in tenths.  Anything else
\* (exponents, inf, nan, a leading '+' or '.') is "not numeric" for the contract, i.e. gray.
IsDigit(c) == c \in 48..57
RECURSIVE DigitsVal(_)
DigitsVal(s) == IF s = <<>> THEN 0 ELSE DigitsVal(SubSeq(s, 1, Len(s) - 1)) * 10 + (s[Len(s)] - 48)
Unsigned(k) == IF Len(k) > 0 /\ k[1] = 45 THEN Tail(k) ELSE k
HasFrac(u)  == Len(u) >= 3 /\ u[Len(u) - 1] = 46
IntPart(u)  == IF HasFrac(u) THEN SubSeq(u, 1, Len(u) - 2) ELSE u
IsNum(k) == LET u == Unsigned(k) IN
            /\ Len(IntPart(u)) > 0
            /\ \A j \in 1..Len(IntPart(u)) : IsDigit(IntPart(u)[j])
            /\ HasFrac(u) => IsDigit(u[Len(u)])
NumVal(k) == LET u == Unsigned(k)
                 m == DigitsVal(IntPart(u)) * 10 + (IF HasFrac(u) THEN u[Len(u)] - 48 ELSE 0)
             IN IF Len(k) > 0 /\ k[1] = 45 THEN 0 - m ELSE m

\* strict "a sorts before b" under format fmt
Less(fmt, a, b) == IF fmt = "num" THEN NumVal(a) < NumVal(b) ELSE LexLess(a, b)

\* b (current) is strictly out of order after a (previous)
OutOfOrder(c, a, b) == IF c.dir = "asc" THEN Less(c.fmt, b, a) ELSE Less(c.fmt, a, b)

\* line-pattern regex family as predicates over the trimmed line
Matches(lp, t) ==
  CASE lp = "lower"  -> Len(t) > 0 /\ \A j \in 1..Len(t) : t[j] \in 97..122      \* ^[a-z]+$
    [] lp = "digit"  -> \E j \in 1..Len(t) : t[j] \in 48..57                      \* [0-9]
    [] lp = "startx" -> Len(t) > 0 /\ t[1] = 120                                  \* ^x
    [] lp = "min3"   -> Len(t) >= 3                                                \* ^.{3,}$  (whitespace-sensitive)
    [] lp = "any"    -> TRUE                                                      \* .*
    [] lp = "lower0" -> \A j \in 1..Len(t) : t[j] \in 97..122                      \* ^[a-z]*$  (accepts the empty string, is anchored)
    [] lp = "optx"   -> Len(t) = 0 \/ t[1] = 120                                  \* ^(x.*)?$

Cmp(op, a, n) == CASE op = "<"  -> a < n
                   [] op = "<=" -> a <= n
                   [] op = "==" -> a = n
                   [] op = ">=" -> a >= n
                   [] op = ">"  -> a > n

----------------------------------------------------------------------------
(* Contract: first-order definitions over the whole block *)

KeyIdx(b, pat) == {j \in 1..Len(b) : ~KeyOf(b[j], pat).none}
PrevKeyIdx(b, pat, j) == CHOOSE p \in KeyIdx(b, pat) :
                            p < j /\ \A q \in KeyIdx(b, pat) : q < j => q <= p
HasPrev(b, pat, j) == \E p \in KeyIdx(b, pat) : p < j

AllNumeric(b, c) == c.fmt = "num" => \A j \in KeyIdx(b, c.pat) : IsNum(KeyOf(b[j], c.pat).k)

BadSorted(b, c) == {j \in KeyIdx(b, c.pat) :
                      HasPrev(b, c.pat, j) /\
                      OutOfOrder(c, KeyOf(b[PrevKeyIdx(b, c.pat, j)], c.pat).k, KeyOf(b[j], c.pat).k)}
BadUnique(b, c) == {j \in KeyIdx(b, c.pat) :
                      \E p \in KeyIdx(b, c.pat) : p < j /\ KeyOf(b[p], c.pat).k = KeyOf(b[j], c.pat).k}
BadPattern(b, c) == {j \in 1..Len(b) : ~IsBlank(b[j]) /\ ~Matches(c.lp, Trimmed(b[j]))}
NonBlank(b)      == Cardinality({j \in 1..Len(b) : ~IsBlank(b[j])})

MinOf(S) == CHOOSE x \in S : \A y \in S : x <= y

Verdict(S) == IF S = {} THEN [v |-> "ok"] ELSE [v |-> "viol", at |-> MinOf(S)]

\* The contract is three-valued: "gray" where the property statement leaves the result open
\* (a non-numeric key under numeric sort is C13's business, not C06's).
Contract(b, c) ==
  CASE c.kind = "sorted"  -> IF AllNumeric(b, c) THEN Verdict(BadSorted(b, c)) ELSE [v |-> "gray"]
    [] c.kind = "unique"  -> Verdict(BadUnique(b, c))
    [] c.kind = "pattern" -> Verdict(BadPattern(b, c))
    [] c.kind = "count"   -> IF Cmp(c.op, NonBlank(b), c.n) THEN [v |-> "ok"]
                             ELSE [v |-> "viol", at |-> 0, actual |-> NonBlank(b)]

----------------------------------------------------------------------------
(* Implementation-shaped loop *)

Init ==
  /\ cfg \in Configs
  /\ block \in UNION {[1..n -> Lines] : n \in 0..MaxLen}
  /\ i = 1 /\ prev = None /\ seen = {} /\ cnt = 0 /\ out = [v |-> "run"]

Running == out.v = "run" /\ i <= Len(block)

\* keep_sorted.rs: one iteration of `for (line_number, line) in content.lines().enumerate()`
SortStep ==
  /\ Running /\ cfg.kind = "sorted"
  /\ LET k == KeyOf(block[i], cfg.pat) IN
     IF k.none THEN UNCHANGED <<prev, out>>
     ELSE IF prev.none THEN prev' = k /\ UNCHANGED out
     ELSE IF cfg.fmt = "num" /\ (~IsNum(prev.k) \/ ~IsNum(k.k))
          THEN out' = [v |-> "err"] /\ UNCHANGED prev              \* f64 parse failure -> Err
     ELSE IF OutOfOrder(cfg, prev.k, k.k)
          THEN out' = [v |-> "viol", at |-> i] /\ UNCHANGED prev   \* push violation; break
     ELSE prev' = k /\ UNCHANGED out
  /\ i' = i + 1 /\ UNCHANGED <<block, cfg, seen, cnt>>

\* keep_unique.rs
UniqueStep ==
  /\ Running /\ cfg.kind = "unique"
  /\ LET k == KeyOf(block[i], cfg.pat) IN
     IF k.none THEN UNCHANGED <<seen, out>>
     ELSE IF k.k \in seen THEN out' = [v |-> "viol", at |-> i] /\ UNCHANGED seen   \* !seen.insert(..); break
     ELSE seen' = seen \cup {k.k} /\ UNCHANGED out
  /\ i' = i + 1 /\ UNCHANGED <<block, cfg, prev, cnt>>

\* line_pattern.rs
PatternStep ==
  /\ Running /\ cfg.kind = "pattern"
  /\ IF IsBlank(block[i]) THEN UNCHANGED out
     ELSE IF Matches(cfg.lp, Trimmed(block[i])) THEN UNCHANGED out
     ELSE out' = [v |-> "viol", at |-> i]
  /\ i' = i + 1 /\ UNCHANGED <<block, cfg, prev, seen, cnt>>

\* line_count.rs: lines().filter(non-blank).count()
CountStep ==
  /\ Running /\ cfg.kind = "count"
  /\ cnt' = IF IsBlank(block[i]) THEN cnt ELSE cnt + 1
  /\ i' = i + 1 /\ UNCHANGED <<block, cfg, prev, seen, out>>

\* loop exit without a violation
Finish ==
  /\ out.v = "run" /\ i > Len(block)
  /\ out' = IF cfg.kind = "count"
            THEN (IF Cmp(cfg.op, cnt, cfg.n) THEN [v |-> "ok"] ELSE [v |-> "viol", at |-> 0, actual |-> cnt])
            ELSE [v |-> "ok"]
  /\ UNCHANGED <<block, cfg, i, prev, seen, cnt>>

Next == SortStep \/ UniqueStep \/ PatternStep \/ CountStep \/ Finish

Spec == Init /\ [][Next]_vars /\ WF_vars(Next)

----------------------------------------------------------------------------
(* Properties *)

Done == out.v # "run"

TypeOK == /\ i \in 1..(MaxLen + 2)
          /\ cnt \in 0..MaxLen
          /\ out.v \in {"run", "ok", "viol", "err"}

\* the loop implements the contract (outside the gray zone)
ImplMeetsContract ==
  Done => LET c == Contract(block, cfg) IN
          c.v = "gray" \/ (c.v = out.v /\ (c.v = "viol" => c.at = out.at)
                           /\ (cfg.kind = "count" /\ c.v = "viol" => c.actual = out.actual))

\* step invariants of the loops
SortedPrefixInOrder ==    \* while running, everything consumed so far was in order
  (cfg.kind = "sorted" /\ out.v = "run" /\ AllNumeric(block, cfg)) =>
      BadSorted(SubSeq(block, 1, i - 1), cfg) = {}
SeenIsKeysSoFar ==
  (cfg.kind = "unique" /\ out.v = "run") =>
      seen = {KeyOf(block[j], cfg.pat).k : j \in KeyIdx(SubSeq(block, 1, i - 1), cfg.pat)}
CountIsPrefixCount ==
  (cfg.kind = "count" /\ out.v = "run") => cnt = NonBlank(SubSeq(block, 1, i - 1))
AtMostOneViolation == Done /\ out.v = "viol" => out.at \in 0..Len(block)

Terminates == <>Done

\* one JSON line per behaviour for the conformance replay
Emit == Done => PrintT(<<"CASE", ToJson([block |-> block, cfg |-> cfg,
                                          expect |-> Contract(block, cfg), impl |-> out])>>)
=============================================================================
