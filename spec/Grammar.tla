------------------------------- MODULE Grammar -------------------------------
(***************************************************************************)
(* C16: which grammar parses a file (src/blocks.rs parser_for_file_path,   *)
(* try_parser_for_extension; src/flags.rs validate).                       *)
(* A base name is a sequence of components joined by dots.  The walk tries *)
(* the suffixes after each dot from the right-most dot leftwards (so the   *)
(* shortest suffix first), each through the -E remapping, then the whole   *)
(* name (TrySuffix / FallbackWholeName actions).  Contract GrammarOf: the  *)
(* shortest dot-suffix that is registered or remapped decides; else the    *)
(* whole name; else the file is skipped silently.  The table of registered *)
(* suffixes is a constant of the specification (39 entries), so an entry   *)
(* lost or misspelt in the code shows up in the replay.  A remapping onto  *)
(* a name that is not registered is rejected before anything runs.         *)
(***************************************************************************)
EXTENDS Integers, Sequences, FiniteSets, TLC, Json

CONSTANTS Components,   \* alphabet of name components
          MaxComp,      \* components per base name
          Table,        \* function: registered suffix (sequence of components) -> grammar id
          RemapPool,    \* set of remappings [from |-> suffix, to |-> suffix] to draw from (0 or 1 per case)
          RemapPairs    \* set of two-element sets of remappings (several -E flags on one command line)

VARIABLES name, remap,       \* input: base name (sequence of components), set of remappings
          k, result, pc      \* walk: number of components in the suffix being tried

vars == <<name, remap, k, result, pc>>

Registered == DOMAIN Table
RemapOf(sfx) == IF \E r \in remap : r.from = sfx THEN (CHOOSE r \in remap : r.from = sfx).to ELSE sfx
Lookup(sfx) == IF RemapOf(sfx) \in Registered THEN Table[RemapOf(sfx)] ELSE "none"
Suffix(n, j) == SubSeq(n, Len(n) - j + 1, Len(n))       \* the last j components

RemapValid == \A r \in remap : r.to \in Registered       \* flags.rs validate

Init == /\ name \in UNION {[1..n -> Components] : n \in 1..MaxComp}
        /\ remap \in {{}} \cup {{r} : r \in RemapPool} \cup RemapPairs
        /\ k = 1 /\ result = "pending" /\ pc = "walk"

\* `for (i, _) in file_name.match_indices('.').rev()`: suffixes with 1 .. Len-1 components
TrySuffix == /\ pc = "walk" /\ k < Len(name)
             /\ IF Lookup(Suffix(name, k)) # "none"
                THEN result' = Lookup(Suffix(name, k)) /\ pc' = "done" /\ UNCHANGED k
                ELSE k' = k + 1 /\ UNCHANGED <<result, pc>>
             /\ UNCHANGED <<name, remap>>
\* `try_parser_for_extension(&OsString::from(file_name), ..)`
FallbackWholeName == /\ pc = "walk" /\ k >= Len(name)
                     /\ result' = Lookup(name) /\ pc' = "done"
                     /\ UNCHANGED <<name, remap, k>>
Next == TrySuffix \/ FallbackWholeName
Spec == Init /\ [][Next]_vars

\* contract
Cands(n) == {j \in 1..Len(n) : Lookup(Suffix(n, j)) # "none"}
GrammarOf(n) == IF Cands(n) = {} THEN "none"
                ELSE Lookup(Suffix(n, CHOOSE j \in Cands(n) : \A i \in Cands(n) : j <= i))
Done == pc = "done"
WalkMeetsContract == Done => result = GrammarOf(name)
TypeOK == pc \in {"walk", "done"}

Emit == Done => PrintT(<<"CASE", ToJson([name |-> name, remap |-> remap, valid |-> RemapValid,
                                          grammar |-> IF RemapValid THEN result ELSE "rejected"])>>)
=============================================================================
