-------------------------------- MODULE Flags --------------------------------
(***************************************************************************)
(* C14: the -d/--disable and -e/--enable flags (src/flags.rs               *)
(* parse_validator / validate, src/validators/mod.rs filter).              *)
(* An invocation is a sequence of (flag, name) pairs.  Contract:           *)
(*   rejected  <=> some name is not one of the seven validator names       *)
(*                 (exact, lower-case) or both flags occur;                *)
(*   otherwise the effective validators are the enabled set if it is not   *)
(*   empty, else all minus the disabled set -- sets, so repeating a flag   *)
(*   composes as union and order does not matter.                          *)
(* TLC enumerates every invocation up to MaxArgs over the name alphabet    *)
(* and emits it with the verdict; Detect.tla shows that exactly the        *)
(* effective validators some block needs are instantiated.                 *)
(***************************************************************************)
EXTENDS Integers, Sequences, FiniteSets, TLC, Json

CONSTANTS MaxArgs, Names, Known, FlagSet

VARIABLES argv, done
vars == <<argv, done>>

Validators == {"affects", "keep-sorted", "keep-unique", "line-pattern", "line-count", "check-ai", "check-lua"}

NamesOf(a, f) == {a[k].name : k \in {j \in 1..Len(a) : a[j].flag = f}}
Rejected(a) == \/ \E k \in 1..Len(a) : a[k].name \notin Validators
               \/ (NamesOf(a, "d") # {} /\ NamesOf(a, "e") # {})
Effective(a) == IF NamesOf(a, "e") # {} THEN NamesOf(a, "e") ELSE Validators \ NamesOf(a, "d")

Init == /\ argv \in UNION {[1..n -> [flag : FlagSet, name : Names]] : n \in 0..MaxArgs}
        /\ done = FALSE
Next == ~done /\ done' = TRUE /\ UNCHANGED argv
Spec == Init /\ [][Next]_vars

\* sanity: the verdict does not depend on the order or multiplicity of the flags
OrderFree == \A p \in 1..Len(argv), q \in 1..Len(argv) :
               LET sw == [k \in 1..Len(argv) |-> IF k = p THEN argv[q] ELSE IF k = q THEN argv[p] ELSE argv[k]]
               IN Rejected(sw) = Rejected(argv) /\ (~Rejected(argv) => Effective(sw) = Effective(argv))
KnownOk == Known \subseteq Validators

Emit == done => PrintT(<<"CASE", ToJson([argv |-> argv, rejected |-> Rejected(argv),
                                          effective |-> IF Rejected(argv) THEN {} ELSE Effective(argv)])>>)
=============================================================================
