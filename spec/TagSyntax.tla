------------------------------ MODULE TagSyntax ------------------------------
(***************************************************************************)
(* C05: the tag grammar (src/tag_parser.rs).                               *)
(* A comment is  noise-before  START-TAG  noise-after, where the start tag *)
(* is rendered from an attribute list and a layout, and the noise is text  *)
(* or a look-alike that must never be taken for a block tag.  The contract *)
(* is the round trip: scanning the comment yields exactly one start tag,   *)
(* at the rendered offset, with the attributes as written, the last        *)
(* duplicate winning; each look-alike alone yields no tag; every end-tag   *)
(* spelling closes the block.  The scanner is modelled at token level:     *)
(* one step per '<' candidate (TryStart / TryEnd / SkipLt).                *)
(***************************************************************************)
EXTENDS Integers, Sequences, FiniteSets, TLC, Json

CONSTANTS MaxAttrs, Names, Layouts, NoisePairs

VARIABLES attrs, layout, noise,     \* input
          cur, out, pc              \* scanner: cursor over the '<' candidates, tags found

vars == <<attrs, layout, noise, cur, out, pc>>

ValKinds == {"bare", "unq", "dq", "sq"}
\* value ids; the spellings live in the concretiser (and are asserted to avoid the enclosing quote)
ValsOf(k) == CASE k = "bare" -> {"-"}
               [] k = "unq"  -> {"v1", "uni"}
               \* "bslash": a value ending in a backslash (the grammar has no escapes: the quote after it closes the value);
               \* "url" / "cmtchars": values holding the comment markers of the surrounding language (// and #)
               [] k = "dq"   -> {"empty", "gt", "ltkv", "otherq", "uni", "looktag", "cmtchars", "bslash", "url"}
               [] k = "sq"   -> {"empty", "gt", "ltkv", "otherq", "uni", "looktag", "bslash", "url"}
AttrSet == UNION {[name : Names, vk : {k}, val : ValsOf(k)] : k \in ValKinds}

LookAlikes == {"none", "text", "b_tag", "lone_lt", "a_lt_b", "blockquote", "selfclose", "upper", "spaced", "noattr_glued", "unterminated",
               "unterminated_dq", "glued_after_end"}

\* '<' candidates of the comment, in order: noise-before, the tag, noise-after, the end tag
Candidates == (IF noise.before \in {"none", "text"} THEN <<>>
               ELSE IF noise.before = "glued_after_end" THEN <<[k |-> "end", id |-> "previous block"]>>
               ELSE <<[k |-> "look", id |-> noise.before]>>)
              \o <<[k |-> "start", id |-> "tag"]>>
              \o (IF noise.after \in {"none", "text"} THEN <<>> ELSE <<[k |-> "look", id |-> noise.after]>>)
              \o <<[k |-> "end", id |-> layout.endsp]>>

Init ==
  /\ attrs \in UNION {[1..n -> AttrSet] : n \in 0..MaxAttrs}
  /\ layout \in Layouts
  /\ noise \in NoisePairs
  \* A look-alike with an unclosed quote BEFORE the tag: its value runs on to the first quote of the same kind inside
  \* the real tag (an opening quote of one of its attributes), which is directly followed by that attribute's value
  \* or by the closing quote -- never by whitespace or '>' -- so the candidate is not a start tag by the grammar and
  \* the scan resumes one byte after its '<' (SkipLt), reaching the real tag.  (This used to be excluded as gray.)
  \* "glued_after_end": the tag directly follows the end tag of a previous block and is the last thing in its comment.
  /\ (noise.before = "glued_after_end" => noise.after = "none")
  /\ cur = 1 /\ out = <<>> /\ pc = "scan"

\* `if let Ok(..) = parse_start_tag.parse_peek(..)`
TryStart == /\ pc = "scan" /\ cur <= Len(Candidates) /\ Candidates[cur].k = "start"
            /\ out' = Append(out, "S") /\ cur' = cur + 1 /\ UNCHANGED <<attrs, layout, noise, pc>>
\* `if let Ok(..) = parse_end_tag.parse_peek(..)`
TryEnd ==   /\ pc = "scan" /\ cur <= Len(Candidates) /\ Candidates[cur].k = "end"
            /\ out' = Append(out, "E") /\ cur' = cur + 1 /\ UNCHANGED <<attrs, layout, noise, pc>>
\* "Not a valid tag, skip past this '<' and continue searching"
SkipLt ==   /\ pc = "scan" /\ cur <= Len(Candidates) /\ Candidates[cur].k = "look"
            /\ cur' = cur + 1 /\ UNCHANGED <<attrs, layout, noise, out, pc>>
NoMoreLt == /\ pc = "scan" /\ cur > Len(Candidates) /\ pc' = "done" /\ UNCHANGED <<attrs, layout, noise, cur, out>>
Next == TryStart \/ TryEnd \/ SkipLt \/ NoMoreLt
Spec == Init /\ [][Next]_vars

----------------------------------------------------------------------------
\* last duplicate wins
LastIdx(a, nm) == CHOOSE k \in {j \in 1..Len(a) : a[j].name = nm} : \A j \in 1..Len(a) : a[j].name = nm => j <= k
NameSet(a) == {a[k].name : k \in 1..Len(a)}
Expected(a) == [nm \in NameSet(a) |-> [vk |-> a[LastIdx(a, nm)].vk, val |-> a[LastIdx(a, nm)].val]]

Done == pc = "done"
RoundTrip == Done => out = (IF noise.before = "glued_after_end" THEN <<"E">> ELSE <<>>) \o <<"S", "E">>   \* exactly the one block, look-alikes ignored
TypeOK == pc \in {"scan", "done"}

Emit == Done => PrintT(<<"CASE", ToJson([attrs |-> attrs, layout |-> layout, noise |-> noise,
                                          expected |-> [nm \in NameSet(attrs) |-> Expected(attrs)[nm]],
                                          names |-> NameSet(attrs)])>>)
=============================================================================
