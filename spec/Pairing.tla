------------------------------- MODULE Pairing -------------------------------
(***************************************************************************)
(* C03 / C12: from the comments of a file to its blocks                    *)
(* (src/block_parser.rs parse_blocks_from_comments).                       *)
(*                                                                         *)
(* A file is a sequence of items: code, a string literal holding decoy     *)
(* tags, or a comment holding 0..2 block tags.  Only tags in comments      *)
(* count.  The implementation-shaped part is the stack machine of the      *)
(* code: PushStart / PopEnd / ErrUnexpectedEnd / ErrUnclosed / FinishSort, *)
(* one action per tag.  The contract is declarative: the tag stream is     *)
(* balanced iff no error; the pairs are the unique well-nested matching;   *)
(* a block's content is everything strictly between the comment of its     *)
(* start tag and the comment of its end tag (empty when both tags share a  *)
(* comment); blocks are reported in source order.                          *)
(***************************************************************************)
EXTENDS Integers, Sequences, FiniteSets, TLC, Json, SequencesExt

CONSTANTS MaxItems, MaxTags, ItemKinds,
          CommentKinds,   \* kinds of comment syntax in one file ({"a"}; Markdown: {"a", "b"} = [//]: # links and HTML comments)
          SplitKinds      \* TRUE = deviation M1 of the Markdown parser: every comment kind is paired on a stack of its own

VARIABLES items,    \* input: sequence of item records [k, tags, ck]
          phase,    \* which comment kind is being paired (always 1 unless SplitKinds)
          ti,       \* cursor into the tag stream of the current phase
          stack,    \* open start tags (tag indices)
          blocks,   \* sequence of [s, e] tag-index pairs, in completion order, then sorted
          err,      \* "none" | "unexpected_end" | "unclosed"
          pc        \* "scan" | "done"

vars == <<items, phase, ti, stack, blocks, err, pc>>

\* item kinds: "code", "str" (decoy tags inside a string literal / markup), comments with tag lists
TagLists == {<<>>, <<"S">>, <<"E">>, <<"S", "E">>, <<"E", "S">>, <<"S", "S">>, <<"E", "E">>}
Items == [k : {"code", "str"}, tags : {<<>>}, ck : {"-"}] \cup [k : {"cmt"}, tags : TagLists, ck : CommentKinds]

\* the tag stream of the comments: sequence of [item, pos, t]
RECURSIVE StreamFrom(_, _)
StreamFrom(its, n) ==
  IF n > Len(its) THEN <<>>
  ELSE (IF its[n].k = "cmt" THEN [p \in 1..Len(its[n].tags) |-> [item |-> n, pos |-> p, t |-> its[n].tags[p], ck |-> its[n].ck]] ELSE <<>>)
       \o StreamFrom(its, n + 1)
Stream(its) == StreamFrom(its, 1)

Init ==
  /\ items \in UNION {[1..n -> {i \in Items : i.k \in ItemKinds}] : n \in 1..MaxItems}
  /\ Len(Stream(items)) <= MaxTags
  /\ phase = 1 /\ ti = 1 /\ stack = <<>> /\ blocks = <<>> /\ err = "none" /\ pc = "scan"

SetToSeqP(S) == SetToSeq(S)
SetToSeqK == IF CommentKinds = {"a", "b"} THEN <<"a", "b">> ELSE <<"a">>
\* the phases: one over the whole stream, or (SplitKinds) one per comment kind, in a fixed order
KindSeq == IF SplitKinds THEN SetToSeqK ELSE <<"*">>
\* indices (into the whole stream) of the tags handled in phase ph
PhaseIdx(ph) == SelectSeq([k \in 1..Len(Stream(items)) |-> k],
                          LAMBDA k : KindSeq[ph] = "*" \/ Stream(items)[k].ck = KindSeq[ph])
NTags == Len(PhaseIdx(phase))
Cur == Stream(items)[PhaseIdx(phase)[ti]]
CurIdx == PhaseIdx(phase)[ti]

\* PartialBlock::Start => block_starts.push
PushStart ==
  /\ pc = "scan" /\ ti <= NTags /\ Cur.t = "S"
  /\ stack' = Append(stack, CurIdx) /\ ti' = ti + 1
  /\ UNCHANGED <<items, phase, blocks, err, pc>>
\* PartialBlock::End with an open block => pop, emit block
PopEnd ==
  /\ pc = "scan" /\ ti <= NTags /\ Cur.t = "E" /\ stack # <<>>
  /\ blocks' = Append(blocks, [s |-> stack[Len(stack)], e |-> CurIdx])
  /\ stack' = SubSeq(stack, 1, Len(stack) - 1) /\ ti' = ti + 1
  /\ UNCHANGED <<items, phase, err, pc>>
\* PartialBlock::End with nothing open => Err("Unexpected closed block")
ErrUnexpectedEnd ==
  /\ pc = "scan" /\ ti <= NTags /\ Cur.t = "E" /\ stack = <<>>
  /\ err' = "unexpected_end" /\ pc' = "done"
  /\ UNCHANGED <<items, phase, ti, stack, blocks>>
\* end of comments with an open block => Err("Block ... is not closed")
ErrUnclosed ==
  /\ pc = "scan" /\ ti > NTags /\ stack # <<>>
  /\ err' = "unclosed" /\ pc' = "done"
  /\ UNCHANGED <<items, phase, ti, stack, blocks>>
\* (M1 only) one comment kind is done and balanced: pair the next kind on a fresh stack
NextPhase ==
  /\ pc = "scan" /\ ti > NTags /\ stack = <<>> /\ phase < Len(KindSeq)
  /\ phase' = phase + 1 /\ ti' = 1
  /\ UNCHANGED <<items, stack, blocks, err, pc>>
\* blocks.sort_by(start position)
FinishSort ==
  /\ pc = "scan" /\ ti > NTags /\ stack = <<>> /\ phase = Len(KindSeq)
  /\ blocks' = SortSeq(blocks, LAMBDA a, b : a.s < b.s)
  /\ pc' = "done"
  /\ UNCHANGED <<items, phase, ti, stack, err>>

Next == PushStart \/ PopEnd \/ ErrUnexpectedEnd \/ ErrUnclosed \/ NextPhase \/ FinishSort
Spec == Init /\ [][Next]_vars /\ WF_vars(Next)

----------------------------------------------------------------------------
(* Contract *)
St == Stream(items)
\* running depth after the first n tags
RECURSIVE DepthAt(_, _)
DepthAt(s, n) == IF n = 0 THEN 0 ELSE DepthAt(s, n - 1) + (IF s[n].t = "S" THEN 1 ELSE -1)
WellNested(s) == (\A n \in 1..Len(s) : DepthAt(s, n) >= 0) /\ DepthAt(s, Len(s)) = 0
\* the matching end of start tag a: the first later position where the depth returns to its value before a
MatchOf(s, a) == CHOOSE e \in (a + 1)..Len(s) :
                    /\ DepthAt(s, e) = DepthAt(s, a) - 1
                    /\ \A m \in (a + 1)..(e - 1) : DepthAt(s, m) >= DepthAt(s, a)
ExpectedPairs(s) == {[s |-> a, e |-> MatchOf(s, a)] : a \in {n \in 1..Len(s) : s[n].t = "S"}}

\* content of a pair: the items strictly between the two comments; empty when they are the same comment
ContentItems(s, p) == IF s[p.s].item = s[p.e].item THEN {} ELSE (s[p.s].item + 1)..(s[p.e].item - 1)

Done == pc = "done"
ErrIffUnbalanced == Done /\ ~SplitKinds => (err = "none" <=> WellNested(St))
PairsAreTheMatching == Done /\ ~SplitKinds /\ err = "none" => {blocks[k] : k \in 1..Len(blocks)} = ExpectedPairs(St)
SourceOrder == Done /\ err = "none" => \A k \in 1..(Len(blocks) - 1) : blocks[k].s < blocks[k + 1].s
NoGuessing == Done /\ err # "none" => TRUE     \* (the run fails; nothing is reported -- checked on the real code)
StackIsOpenStarts == pc = "scan" => \A k \in 1..Len(stack) : St[stack[k]].t = "S"
TypeOK == err \in {"none", "unexpected_end", "unclosed"} /\ pc \in {"scan", "done"}
Terminates == <>Done

\* M1 is harmless exactly when every kind's own sub-stream is balanced and agrees with the whole matching
MixedKinds == Cardinality({St[k].ck : k \in 1..Len(St)}) > 1
SplitAgreesWhenUnmixed == Done /\ SplitKinds /\ ~MixedKinds => (err = "none" <=> WellNested(St))
ContractErr == IF WellNested(St) THEN "none" ELSE "unbalanced"
ContractPairs == IF WellNested(St)
                 THEN LET ps == SortSeq(SetToSeqP(ExpectedPairs(St)), LAMBDA a, b : a.s < b.s)
                      IN [k \in 1..Len(ps) |-> [s_item |-> St[ps[k].s].item, s_pos |-> St[ps[k].s].pos,
                                                 e_item |-> St[ps[k].e].item, e_pos |-> St[ps[k].e].pos]]
                 ELSE <<>>

Emit == Done => PrintT(<<"CASE", ToJson(
          [items |-> items, err |-> err, mixed |-> MixedKinds,
           contract |-> [err |-> ContractErr, blocks |-> ContractPairs],
           blocks |-> IF err = "none"
                      THEN [k \in 1..Len(blocks) |->
                              [s_item |-> St[blocks[k].s].item, s_pos |-> St[blocks[k].s].pos,
                               e_item |-> St[blocks[k].e].item, e_pos |-> St[blocks[k].e].pos]]
                      ELSE <<>>])>>)
=============================================================================
