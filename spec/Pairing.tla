------------------------------- MODULE Pairing -------------------------------
(***************************************************************************)
(* C03 / C12: from the comments of a file to its blocks                    *)
(* (src/block_parser.rs parse_blocks_from_comments).                       *)
(*                                                                         *)
(* A file is a sequence of items: code, a string literal holding decoy     *)
(* tags, or a comment holding 0..2 block tags.  Only tags in comments      *)
(* count.  The implementation-shaped part is the stack machine of the      *)
(* code: PushStart / PopEnd / ErrUnexpectedEnd / ErrUnclosed / FinishSort, *)
(* one action per tag.  The contract is declarative: the tag stream is     *)
(* balanced iff no error; the pairs are the unique well-nested matching;   *)
(* a block's content is everything strictly between the comment of its     *)
(* start tag and the comment of its end tag (empty when both tags share a  *)
(* comment); blocks are reported in source order.                          *)
(***************************************************************************)
EXTENDS Integers, Sequences, FiniteSets, TLC, Json

CONSTANTS MaxItems, MaxTags, ItemKinds

VARIABLES items,    \* input: sequence of item records [k, tags]
          ti,       \* cursor into the tag stream
          stack,    \* open start tags (tag indices)
          blocks,   \* sequence of [s, e] tag-index pairs, in completion order, then sorted
          err,      \* "none" | "unexpected_end" | "unclosed"
          pc        \* "scan" | "done"

vars == <<items, ti, stack, blocks, err, pc>>

\* item kinds: "code", "str" (decoy tags inside a string literal / markup), comments with tag lists
TagLists == {<<>>, <<"S">>, <<"E">>, <<"S", "E">>, <<"E", "S">>, <<"S", "S">>, <<"E", "E">>}
Items == [k : {"code", "str"}, tags : {<<>>}] \cup [k : {"cmt"}, tags : TagLists]

\* the tag stream of the comments: sequence of [item, pos, t]
RECURSIVE StreamFrom(_, _)
StreamFrom(its, n) ==
  IF n > Len(its) THEN <<>>
  ELSE (IF its[n].k = "cmt" THEN [p \in 1..Len(its[n].tags) |-> [item |-> n, pos |-> p, t |-> its[n].tags[p]]] ELSE <<>>)
       \o StreamFrom(its, n + 1)
Stream(its) == StreamFrom(its, 1)

Init ==
  /\ items \in UNION {[1..n -> {i \in Items : i.k \in ItemKinds}] : n \in 1..MaxItems}
  /\ Len(Stream(items)) <= MaxTags
  /\ ti = 1 /\ stack = <<>> /\ blocks = <<>> /\ err = "none" /\ pc = "scan"

Cur == Stream(items)[ti]

\* PartialBlock::Start => block_starts.push
PushStart ==
  /\ pc = "scan" /\ ti <= Len(Stream(items)) /\ Cur.t = "S"
  /\ stack' = Append(stack, ti) /\ ti' = ti + 1
  /\ UNCHANGED <<items, blocks, err, pc>>
\* PartialBlock::End with an open block => pop, emit block
PopEnd ==
  /\ pc = "scan" /\ ti <= Len(Stream(items)) /\ Cur.t = "E" /\ stack # <<>>
  /\ blocks' = Append(blocks, [s |-> stack[Len(stack)], e |-> ti])
  /\ stack' = SubSeq(stack, 1, Len(stack) - 1) /\ ti' = ti + 1
  /\ UNCHANGED <<items, err, pc>>
\* PartialBlock::End with nothing open => Err("Unexpected closed block")
ErrUnexpectedEnd ==
  /\ pc = "scan" /\ ti <= Len(Stream(items)) /\ Cur.t = "E" /\ stack = <<>>
  /\ err' = "unexpected_end" /\ pc' = "done"
  /\ UNCHANGED <<items, ti, stack, blocks>>
\* end of comments with an open block => Err("Block ... is not closed")
ErrUnclosed ==
  /\ pc = "scan" /\ ti > Len(Stream(items)) /\ stack # <<>>
  /\ err' = "unclosed" /\ pc' = "done"
  /\ UNCHANGED <<items, ti, stack, blocks>>
\* blocks.sort_by(start position)
FinishSort ==
  /\ pc = "scan" /\ ti > Len(Stream(items)) /\ stack = <<>>
  /\ blocks' = SortSeq(blocks, LAMBDA a, b : a.s < b.s)
  /\ pc' = "done"
  /\ UNCHANGED <<items, ti, stack, err>>

Next == PushStart \/ PopEnd \/ ErrUnexpectedEnd \/ ErrUnclosed \/ FinishSort
Spec == Init /\ [][Next]_vars /\ WF_vars(Next)

----------------------------------------------------------------------------
(* Contract *)
St == Stream(items)
\* running depth after the first n tags
RECURSIVE DepthAt(_, _)
DepthAt(s, n) == IF n = 0 THEN 0 ELSE DepthAt(s, n - 1) + (IF s[n].t = "S" THEN 1 ELSE -1)
WellNested(s) == (\A n \in 1..Len(s) : DepthAt(s, n) >= 0) /\ DepthAt(s, Len(s)) = 0
\* the matching end of start tag a: the first later position where the depth returns to its value before a
MatchOf(s, a) == CHOOSE e \in (a + 1)..Len(s) :
                    /\ DepthAt(s, e) = DepthAt(s, a) - 1
                    /\ \A m \in (a + 1)..(e - 1) : DepthAt(s, m) >= DepthAt(s, a)
ExpectedPairs(s) == {[s |-> a, e |-> MatchOf(s, a)] : a \in {n \in 1..Len(s) : s[n].t = "S"}}

\* content of a pair: the items strictly between the two comments; empty when they are the same comment
ContentItems(s, p) == IF s[p.s].item = s[p.e].item THEN {} ELSE (s[p.s].item + 1)..(s[p.e].item - 1)

Done == pc = "done"
ErrIffUnbalanced == Done => (err = "none" <=> WellNested(St))
PairsAreTheMatching == Done /\ err = "none" => {blocks[k] : k \in 1..Len(blocks)} = ExpectedPairs(St)
SourceOrder == Done /\ err = "none" => \A k \in 1..(Len(blocks) - 1) : blocks[k].s < blocks[k + 1].s
NoGuessing == Done /\ err # "none" => TRUE     \* (the run fails; nothing is reported -- checked on the real code)
StackIsOpenStarts == pc = "scan" => \A k \in 1..Len(stack) : St[stack[k]].t = "S"
TypeOK == err \in {"none", "unexpected_end", "unclosed"} /\ pc \in {"scan", "done"}
Terminates == <>Done

Emit == Done => PrintT(<<"CASE", ToJson(
          [items |-> items, err |-> err,
           blocks |-> IF err = "none"
                      THEN [k \in 1..Len(blocks) |->
                              [s_item |-> St[blocks[k].s].item, s_pos |-> St[blocks[k].s].pos,
                               e_item |-> St[blocks[k].e].item, e_pos |-> St[blocks[k].e].pos]]
                      ELSE <<>>])>>)
=============================================================================
