------------------------------- MODULE Affects -------------------------------
(***************************************************************************)
(* C01, second half: the `affects` validator (src/validators/affects.rs).  *)
(* Input: the blocks in the validation context, each with file, optional   *)
(* name, how the diff touched it (content / tag only / not at all) and a   *)
(* list of references (same-file ":n", cross-file "f:n", lists, cycles,    *)
(* duplicate names, missing targets).  Implementation-shaped: the two      *)
(* passes of the code -- CollectNamed builds the index of modified named   *)
(* blocks, CheckRef walks every reference of every modified block.         *)
(* Contract: one violation for each (modified block, reference) whose      *)
(* (file, name) has NO block with modified content; none otherwise.        *)
(***************************************************************************)
EXTENDS Integers, Sequences, FiniteSets, TLC, Json

CONSTANTS Files, BlockNames, MaxBlocks, RefShapes

VARIABLES blocks,            \* input: sequence of block records
          pass, bi, ri,      \* cursors: pass 1 over blocks, pass 2 over blocks x refs
          index,             \* set of <<file, name>> with a content-modified block
          viol               \* sequence of violations [b, file, name]

vars == <<blocks, pass, bi, ri, index, viol>>

\* a reference: file = "" means "same file"
Refs == [file : Files \cup {"", "missing.py"}, name : BlockNames \cup {"ghost"}]
BlockRecs == [file : Files, name : BlockNames \cup {"-"}, mod : {"content", "tag", "none"}, refs : RefShapes]

Init == /\ blocks \in UNION {[1..n -> BlockRecs] : n \in 1..MaxBlocks}
        /\ pass = 1 /\ bi = 1 /\ ri = 1 /\ index = {} /\ viol = <<>>

Target(b, r) == <<IF r.file = "" THEN b.file ELSE r.file, r.name>>

\* first loop: named blocks with modified content
CollectNamed ==
  /\ pass = 1 /\ bi <= Len(blocks)
  /\ index' = IF blocks[bi].mod = "content" /\ blocks[bi].name # "-"
              THEN index \cup {<<blocks[bi].file, blocks[bi].name>>} ELSE index
  /\ bi' = bi + 1 /\ UNCHANGED <<blocks, pass, ri, viol>>
EndPass1 == /\ pass = 1 /\ bi > Len(blocks) /\ pass' = 2 /\ bi' = 1 /\ ri' = 1 /\ UNCHANGED <<blocks, index, viol>>
\* second loop: every reference of every content-modified block
CheckRef ==
  /\ pass = 2 /\ bi <= Len(blocks)
  /\ IF blocks[bi].mod # "content" \/ ri > Len(blocks[bi].refs)
     THEN bi' = bi + 1 /\ ri' = 1 /\ UNCHANGED viol
     ELSE /\ viol' = IF Target(blocks[bi], blocks[bi].refs[ri]) \in index THEN viol
                     ELSE Append(viol, [b |-> bi, file |-> Target(blocks[bi], blocks[bi].refs[ri])[1],
                                        name |-> blocks[bi].refs[ri].name])
          /\ ri' = ri + 1 /\ UNCHANGED bi
  /\ UNCHANGED <<blocks, pass, index>>
EndPass2 == /\ pass = 2 /\ bi > Len(blocks) /\ pass' = 3 /\ UNCHANGED <<blocks, bi, ri, index, viol>>
Next == CollectNamed \/ EndPass1 \/ CheckRef \/ EndPass2
Spec == Init /\ [][Next]_vars

\* contract
Satisfied(bs, b, r) == \E k \in 1..Len(bs) : bs[k].mod = "content" /\ <<bs[k].file, bs[k].name>> = Target(b, r)
ExpectedViolations(bs) ==
  {<<k, j>> : k \in 1..Len(bs), j \in 1..3} \cap
  {<<k, j>> \in (1..Len(bs)) \X (1..3) : bs[k].mod = "content" /\ j <= Len(bs[k].refs) /\ ~Satisfied(bs, bs[k], bs[k].refs[j])}
Done == pass = 3
ViolationsMeetContract ==
  Done => /\ Len(viol) = Cardinality(ExpectedViolations(blocks))
          /\ \A v \in 1..Len(viol) : \E p \in ExpectedViolations(blocks) :
                p[1] = viol[v].b /\ blocks[p[1]].refs[p[2]].name = viol[v].name
                /\ Target(blocks[p[1]], blocks[p[1]].refs[p[2]])[1] = viol[v].file
IndexIsModifiedNamed == pass >= 2 => index = {<<blocks[k].file, blocks[k].name>> : k \in {j \in 1..Len(blocks) : blocks[j].mod = "content" /\ blocks[j].name # "-"}}
TypeOK == pass \in 1..3

Emit == Done => PrintT(<<"CASE", ToJson([blocks |-> blocks, viol |-> viol, exit |-> IF Len(viol) > 0 THEN 1 ELSE 0])>>)
=============================================================================
