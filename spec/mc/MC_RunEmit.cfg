\* Run, scenario emission: outcome assignments and the verdict each must produce
CONSTANTS
  NSync = 2
  NLua = 2
  NAi = 1
  WithEmptyAttr = FALSE
  HasKey = TRUE
  SyncOrder <- MCSyncOrder
  AsyncOrder <- MCAsyncOrder
  BlocksOf <- MCBlocksOf
  KindOf <- MCKindOf
  FileOf <- MCFileOf
  Files <- MCFiles
  SyncOutcomes <- MCSyncOutcomes
  TaskOutcomes <- MCTaskOutcomes
  MkDiag <- MCMkDiag
  SevOfDiag <- MCSevOfDiag
INIT Init
NEXT Next
INVARIANTS TypeOK NoLostNoDup FailClosed CompleteOnReport ExitIffError Deterministic Emit
