\* Pairing, Markdown: two comment kinds ([//]: # links and HTML comments), each paired on its own stack (deviation M1, repaired in /repo: SplitKinds = FALSE is the code now)
CONSTANTS
  MaxItems = 4
  MaxTags = 4
  ItemKinds = {"cmt", "code"}
  CommentKinds = {"a", "b"}
  SplitKinds = FALSE
INIT Init
NEXT Next
INVARIANTS TypeOK ErrIffUnbalanced PairsAreTheMatching SourceOrder SplitAgreesWhenUnmixed StackIsOpenStarts Emit
