------------------------------ MODULE MC_Detect ------------------------------
EXTENDS Detect
CONSTANTS NDets, NFiles
DetNames == <<"affects", "keep-sorted", "keep-unique", "line-pattern", "line-count", "check-ai", "check-lua">>
MCAllDets == SubSeq(DetNames, 1, NDets)
Fs == IF NFiles = 1 THEN {"f1"} ELSE IF NFiles = 2 THEN {"f1", "f2"} ELSE {"f1", "f2", "f3"}
MCNeedsSpace == [Fs -> [1..NBlocks -> SUBSET {DetNames[k] : k \in 1..NDets}]]
=============================================================================
