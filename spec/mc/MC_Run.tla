------------------------------- MODULE MC_Run -------------------------------
(* Bounded instances of Run.tla.  Spawn orders are fixed: validators and blocks are interchangeable,
   so a permutation of the order is the same as a permutation of the outcome assignment, which
   TLC explores anyway. *)
EXTENDS Run, Json

CONSTANTS NSync, NLua, NAi, WithEmptyAttr

D(v, n, f, sev) == [v |-> v, b |-> n, sev |-> sev]
Names == <<"s1", "s2", "s3", "s4", "s5">>
Ok(m) == [st |-> "ok", m |-> m]

MCSyncOrder  == SubSeq(Names, 1, NSync)
MCAsyncOrder == (IF NLua > 0 THEN <<"lua">> ELSE <<>>) \o (IF NAi > 0 THEN <<"ai">> ELSE <<>>)
MCBlocksOf   == [a \in {"lua", "ai"} |-> IF a = "lua" THEN [k \in 1..NLua |-> 100 + k] ELSE [k \in 1..NAi |-> 200 + k]]
MCKindOf     == [a \in {"lua", "ai"} |-> a]
MCFiles      == {"f1", "f2"}
\* the first scripted block lives in f2, the first AI block in f1: with one block each there is a file on which only
\* an async validator reports while the sync validators report on the other one
MCFileOf     == [b \in {100 + k : k \in 1..NLua} \cup {200 + k : k \in 1..NAi} |->
                   IF b < 200 THEN (IF b % 2 = 1 THEN "f2" ELSE "f1") ELSE (IF b % 2 = 1 THEN "f1" ELSE "f2")]

\* a sync validator fails, reports nothing, reports one diagnostic (error or warning) in f1,
\* one in f1 and a warning in f2, or an error in f2 only
MCSyncOutcomes == [v \in {Names[k] : k \in 1..NSync} |->
   { [st |-> "err"], Ok(Empty),
     Ok([f \in {"f1"} |-> <<D(v, 1, f, 1)>>]), Ok([f \in {"f1"} |-> <<D(v, 1, f, 2)>>]),
     Ok([f \in {"f1", "f2"} |-> IF f = "f1" THEN <<D(v, 1, f, 1)>> ELSE <<D(v, 2, f, 2)>>]),
     Ok([f \in {"f1", "f2"} |-> IF f = "f1" THEN <<D(v, 1, f, 2)>> ELSE <<D(v, 2, f, 2)>>]),
     Ok([f \in {"f2"} |-> <<D(v, 2, f, 1)>>]) }]

MCMkDiag(a, b, r) == [v |-> a, b |-> b, sev |-> r.sev]
MCSevOfDiag(d) == d.sev

MCTaskOutcomes == [k \in {"lua", "ai"} |->
   IF k = "lua"
   THEN {[k |-> "nil"], [k |-> "str", sev |-> 1], [k |-> "str", sev |-> 2], [k |-> "err"]}
        \cup (IF WithEmptyAttr THEN {[k |-> "emptyattr"]} ELSE {})
   ELSE {[k |-> "ok"], [k |-> "text", sev |-> 1], [k |-> "fault"], [k |-> "nokey"]}]

\* One JSON line per finished state: the outcome assignment (scenario) and the verdict every
\* interleaving must produce for it (Deterministic).  The conformance harness de-duplicates.
SeqOfMap(m) == [f \in DOMAIN m |-> m[f]]
Emit == Finished => PrintT(<<"CASE", ToJson(
          [sync   |-> [k \in 1..Len(SyncOrder) |->
                         IF result[SyncOrder[k]].st = "ok"
                         THEN [st |-> "ok", f1 |-> Get(result[SyncOrder[k]].m, "f1"), f2 |-> Get(result[SyncOrder[k]].m, "f2")]
                         ELSE [st |-> result[SyncOrder[k]].st, f1 |-> <<>>, f2 |-> <<>>]],
           tasks  |-> [a \in AV |-> [k \in 1..Len(BlocksOf[a]) |->
                         [b |-> BlocksOf[a][k], file |-> FileOf[BlocksOf[a][k]], ret |-> ret[BlocksOf[a][k]]]]],
           haskey |-> HasKey,
           final  |-> final, exit |-> exit,
           f1 |-> Get(report, "f1"), f2 |-> Get(report, "f2")])>>)
=============================================================================
