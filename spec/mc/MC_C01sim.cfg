\* DiffTouch: every edit script of <= MaxOps ops x block placement x layout x M kind
CONSTANTS
  GenSparse = FALSE
  GenLen = 10
  MaxOps = 5
  MaxBlocks = 1
  Layouts = {"line", "inline", "cont", "mltag", "mb"}
  FixU1 = TRUE
  FixF1 = TRUE
  FixDV1 = FALSE
  FixDV2 = FALSE
INIT Init
NEXT Next
INVARIANTS TypeOK QueueOnlyHoldsRemoved QueueEmptyAtDone StepwiseEqualsRecursive DesignMeetsContract Emit
