\* Detect: NDets detectors, NFiles files x NBlocks blocks, every needs assignment, every -e/-d set, every visiting order
CONSTANTS
  NDets = 3
  NFiles = 2
  NBlocks = 2
  AllDets <- MCAllDets
  FileSet <- Fs
  NeedsSpace <- MCNeedsSpace
INIT Init
NEXT Next
INVARIANTS TypeOK DetectComplete OnlyEffective Conservation
