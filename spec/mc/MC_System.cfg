CONSTANTS
  MaxFiles = 3
SPECIFICATION Spec
INVARIANTS TypeOK OnlyFourEndings ExitFollowsEnding ValidateAfterAllParsed NothingAfterFailure
PROPERTY Terminates
