\* Affects: three blocks, reduced reference shapes (duplicate names, earlier/later namesakes)
CONSTANTS
  Files = {"f1.py", "f2.py"}
  BlockNames = {"a", "b"}
  MaxBlocks = 3
  RefShapes <- MCRefShapes3
INIT Init
NEXT Next
INVARIANTS TypeOK ViolationsMeetContract IndexIsModifiedNamed Emit
