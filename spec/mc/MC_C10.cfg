\* Ranges: every layout x key line x key column
CONSTANTS
  Layouts <- MCLayouts
  KeyLines = {0, 1, 2, 3}
  KeyOffs = {0, 2, 5, 121, 124, 13, 16}
  FixR = TRUE
  Wide = FALSE
INIT Init
NEXT Next
INVARIANTS RepairedPointsAtText FirstCodingDeviates Emit
