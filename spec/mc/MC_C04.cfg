\* Soup: every token sequence of <= MaxLen tokens of one family
CONSTANTS
  Family = "c"
  MaxLen = 3
INIT Init
NEXT Next
INVARIANTS NoCrashState Emit
