\* Scope: fixed tree (nested dirs, dirs named a / b, name with a space, hidden, git-ignored) x globs x ignores x diff subset
CONSTANTS
  Tree <- MCTree
  Hidden <- MCHidden
  GitIgnored <- MCGitIgnored
  GlobPool <- MCGlobPool
  MaxGlobs = 1
  MaxIgnores = 1
  MaxDiff = 1
  FixS1 = TRUE
  FixQ1 = TRUE
  Quoted <- MCQuoted
  AnyOrder = TRUE
INIT Init
NEXT Next
INVARIANTS TypeOK ExaminedIsExpected Q1IsTheOnlyGap S1IsTheOnlyGap NothingOutsideTree Emit
