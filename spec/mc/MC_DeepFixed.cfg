\* Deep with the deviation repaired: the contract holds for every construct and depth
CONSTANTS
  Depths = {1, 50, 200, 253, 254, 500, 3000}
  ScannerLimit <- MCLimit
  FixDP1 = TRUE
INIT Init
NEXT Next
INVARIANTS NoCrashState DeviationConfined
CHECK_DEADLOCK FALSE
