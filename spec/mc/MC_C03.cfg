\* Pairing: every file of <= MaxItems items (code / string decoy / comment with 0..2 tags), <= MaxTags tags
CONSTANTS
  MaxItems = 4
  MaxTags = 6
  ItemKinds = {"code", "str", "cmt"}
  CommentKinds = {"a"}
  SplitKinds = FALSE
INIT Init
NEXT Next
INVARIANTS TypeOK ErrIffUnbalanced PairsAreTheMatching SourceOrder StackIsOpenStarts Emit
