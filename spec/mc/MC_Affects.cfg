\* Affects: every context of <= MaxBlocks blocks over 2 files x names {a, b, unnamed} x touched {content, tag only, no} x reference shapes
CONSTANTS
  Files = {"f1.py", "f2.py"}
  BlockNames = {"a", "b"}
  MaxBlocks = 2
  RefShapes <- MCRefShapes
INIT Init
NEXT Next
INVARIANTS TypeOK ViolationsMeetContract IndexIsModifiedNamed Emit
