\* Flags: every invocation of <= MaxArgs (flag, name) pairs
CONSTANTS
  MaxArgs = 3
  Names = {"affects", "keep-sorted", "keep-unique", "line-pattern", "line-count", "check-ai", "check-lua", "Keep-Sorted", "bogus", "keep_sorted"}
  Known = {"affects", "keep-sorted", "keep-unique", "line-pattern", "line-count", "check-ai", "check-lua"}
  FlagSet = {"d", "e"}
INIT Init
NEXT Next
INVARIANTS OrderFree KnownOk Emit
