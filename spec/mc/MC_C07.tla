------------------------------ MODULE MC_C07 ------------------------------
(* keep-unique (C07): alphabet and configurations for the exhaustive check. *)
EXTENDS Rules

K_a  == <<97>>
K_b  == <<98>>
K_ab == <<97, 98>>
K_e  == <<233>>

L(form, key, indent, trail, sfx) == [form |-> form, key |-> key, indent |-> indent, trail |-> trail, sfx |-> sfx]

\* repeated keys, keys differing only in indentation / trailing blanks, keys differing only outside
\* the regex group (sfx), blank and whitespace-only lines, lines the regexes do not match
MCLines == { L("k", K_a, 0, 0, 0), L("k", K_a, 2, 0, 0), L("k", K_a, 0, 2, 0), L("k", K_b, 0, 0, 0),
             L("k", K_ab, 0, 0, 0), L("k", K_e, 0, 0, 0),
             L("id", K_a, 0, 0, 0), L("id", K_a, 0, 0, 1), L("id", K_a, 1, 0, 2), L("id", K_b, 0, 0, 1),
             L("kv", K_a, 0, 0, 0), L("kv", K_a, 0, 0, 1), L("kv", K_b, 0, 0, 0),
             L("blank", <<>>, 0, 0, 0), L("ws", <<>>, 2, 0, 0), L("uws", <<>>, 2, 0, 0) }

CONSTANT Wide   \* TRUE: also the key modes galt / ganch (FALSE in the longest exhaustive run of the thorough tier)
CONSTANT Star   \* TRUE: the small alphabet for the regex whose group may be empty
StarLines == { L("ide", <<>>, 0, 0, 0), L("ide", <<>>, 2, 0, 1), L("ide", K_a, 0, 0, 0), L("ide", K_a, 0, 0, 2),
               L("id", K_a, 0, 0, 0), L("k", K_a, 0, 0, 0), L("blank", <<>>, 0, 0, 0) }
AllLines == MCLines
\* (the longest run of the thorough tier, 5-line blocks, leaves out two line classes: TLC builds the set of all blocks
\*  in Init and refuses sets of more than 10^6 elements -- 16^5 is just over it, 14^5 is not)
MCLinesSel == IF Star THEN StarLines ELSE IF Wide THEN AllLines ELSE AllLines \ {L("uws", <<>>, 2, 0, 0), L("k", K_e, 0, 0, 0)}
MCConfigs == { [kind |-> "unique", dir |-> "asc", sp |-> "", pat |-> p, fmt |-> "lex",
                lp |-> "any", op |-> "==", n |-> 0] : p \in (IF Star THEN {"gstar"} ELSE IF Wide THEN {"none", "group", "plain", "galt", "ganch"} ELSE {"none", "group", "plain"}) }
=============================================================================
