\* RuleSyntax: every token sequence of <= MaxTok tokens of one attribute grammar
CONSTANTS
  MaxTok = 4
  Kind = "count"
INIT Init
NEXT Next
INVARIANTS ValidInvalidDisjoint Emit
