\* Deep: every construct x depth; as coded (FixDP1 = FALSE) the contract NoCrashState is expected to fail exactly
\* on the DP1 cases -- checked through DeviationConfined here and NoCrashState in MC_DeepFixed.cfg
CONSTANTS
  Depths = {1, 50, 200, 253, 254, 500, 3000}
  ScannerLimit <- MCLimit
  FixDP1 = FALSE
INIT Init
NEXT Next
INVARIANTS DeviationConfined Emit
CHECK_DEADLOCK FALSE
