------------------------------ MODULE MC_C05 ------------------------------
EXTENDS TagSyntax
CONSTANT Quick
\* "uname" is spelled with Cyrillic letters by the concretiser (TLC strings are ASCII-only)
MCNames == IF Quick THEN {"a", "uname"} ELSE {"a", "k-1", "uname"}
MCLayouts == [sep : (IF Quick THEN {"sp", "nl"} ELSE {"sp", "tab", "nl"}),
              eq : (IF Quick THEN {"eq", "sp_eq_sp"} ELSE {"eq", "sp_eq_sp", "nl_eq"}),
              trail : (IF Quick THEN {""} ELSE {"", "sp"}),
              endsp : {"plain", "inner"}]
Looks == {"b_tag", "lone_lt", "a_lt_b", "blockquote", "selfclose", "upper", "spaced", "noattr_glued", "unterminated", "unterminated_dq"}
MCNoisePairs == {[before |-> "none", after |-> "none"], [before |-> "text", after |-> "text"]}
                \cup {[before |-> x, after |-> "text"] : x \in Looks}
                \cup {[before |-> "text", after |-> x] : x \in Looks}
                \cup {[before |-> "glued_after_end", after |-> "none"]}
=============================================================================
