\* TagSyntax: every attribute list of <= MaxAttrs attributes x layout x noise
CONSTANTS
  MaxAttrs = 2
  Quick = TRUE
  Names <- MCNames
  Layouts <- MCLayouts
  NoisePairs <- MCNoisePairs
INIT Init
NEXT Next
INVARIANTS TypeOK RoundTrip Emit
