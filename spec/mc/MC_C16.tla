------------------------------ MODULE MC_C16 ------------------------------
EXTENDS Grammar
\* grammar ids = the parser each suffix is registered with (language_parsers/mod.rs)
MCTable ==
  (<<"Makefile">> :> "make") @@ (<<"bash">> :> "bash") @@ (<<"c">> :> "c") @@ (<<"cc">> :> "cpp") @@ (<<"cpp">> :> "cpp")
  @@ (<<"cs">> :> "csharp") @@ (<<"css">> :> "css") @@ (<<"d", "ts">> :> "ts") @@ (<<"go">> :> "go")
  @@ (<<"go", "mod">> :> "go") @@ (<<"go", "sum">> :> "go") @@ (<<"go", "work">> :> "go") @@ (<<"h">> :> "cpp")
  @@ (<<"htm">> :> "html") @@ (<<"html">> :> "html") @@ (<<"java">> :> "java") @@ (<<"js">> :> "js") @@ (<<"jsx">> :> "js")
  @@ (<<"kt">> :> "kotlin") @@ (<<"kts">> :> "kotlin") @@ (<<"makefile">> :> "make") @@ (<<"markdown">> :> "md")
  @@ (<<"md">> :> "md") @@ (<<"mk">> :> "make") @@ (<<"php">> :> "php") @@ (<<"phtml">> :> "php") @@ (<<"py">> :> "python")
  @@ (<<"pyi">> :> "python") @@ (<<"rb">> :> "ruby") @@ (<<"rs">> :> "rust") @@ (<<"sh">> :> "bash") @@ (<<"sql">> :> "sql")
  @@ (<<"swift">> :> "swift") @@ (<<"toml">> :> "toml") @@ (<<"ts">> :> "ts") @@ (<<"tsx">> :> "tsx") @@ (<<"xml">> :> "xml")
  @@ (<<"yaml">> :> "yaml") @@ (<<"yml">> :> "yaml")
ASSUME Cardinality(DOMAIN MCTable) = 39
CONSTANT CompSet
MCRemapPool == { [from |-> <<"bak">>, to |-> <<"py">>], [from |-> <<"cxx">>, to |-> <<"cpp">>], [from |-> <<"py">>, to |-> <<"rs">>],
                 [from |-> <<"bak">>, to |-> <<"nope">>], [from |-> <<"x">>, to |-> <<"PY">>], [from |-> <<"cxx">>, to |-> <<"go", "mod">>],
                 [from |-> <<"d", "ts">>, to |-> <<"py">>],
                 [from |-> <<"Gemfile">>, to |-> <<"py">>],       \* a whole-name key with an upper-case letter
                 [from |-> <<"uname">>, to |-> <<"rs">>],
                 [from |-> <<"cxx">>, to |-> <<"cxx">>] }         \* onto itself: the target is a -E key, not a grammar
\* two -E flags: independent ones, and chains in which one mapping's target is the other's key (no alias-of-alias:
\* every target must itself be a registered grammar, so the chain is rejected)
MCRemapPairs == { {[from |-> <<"cxx">>, to |-> <<"cpp">>], [from |-> <<"bak">>, to |-> <<"py">>]},
                  {[from |-> <<"cxx">>, to |-> <<"cpp">>], [from |-> <<"bak">>, to |-> <<"cxx">>]},
                  {[from |-> <<"bak">>, to |-> <<"cxx">>], [from |-> <<"cxx">>, to |-> <<"bak">>]} }        \* "uname" is spelt with non-ASCII letters by the concretiser
=============================================================================
