------------------------------ MODULE MC_C15 ------------------------------
EXTENDS Scope
P(dirs, base, ext) == [dirs |-> dirs, base |-> base, ext |-> ext]
MCTree == { P(<<>>, "f.py", "py"), P(<<>>, "g.rs", "rs"),
            P(<<"a">>, "f.py", "py"), P(<<"b">>, "f.py", "py"), P(<<"b", "b">>, "g.py", "py"), P(<<"a", "b">>, "f.rs", "rs"),
            P(<<"src">>, "m.py", "py"), P(<<"src", "x y">>, "n.rs", "rs"), P(<<"gen">>, "f.py", "py"),
            P(<<".hid">>, "h.py", "py"), P(<<"hid">>, "h.py", "py"), P(<<"src">>, "ig.py", "py"),
            P(<<"pkg.py">>, "inner.rs", "rs"),
            P(<<"src">>, "uname f.py", "py") }        \* spelt with a non-ASCII letter (and a space) by the concretiser       \* a directory whose own name looks like a file that globs match
MCQuoted == { P(<<"src">>, "uname f.py", "py") }
MCHidden == { P(<<".hid">>, "h.py", "py") }
MCGitIgnored == { P(<<"src">>, "ig.py", "py") }
MCGlobPool == { [form |-> "ext", arg |-> "py"], [form |-> "ext", arg |-> "rs"],
                [form |-> "dir", arg |-> <<"src">>], [form |-> "dir", arg |-> <<"b">>], [form |-> "dir", arg |-> <<"a", "b">>],
                [form |-> "name", arg |-> "f.py"], [form |-> "exact", arg |-> P(<<"src">>, "m.py", "py")],
                [form |-> "exact", arg |-> P(<<"b", "b">>, "g.py", "py")],
                [form |-> "dir", arg |-> <<".hid">>], [form |-> "exact", arg |-> P(<<".hid">>, "h.py", "py")],
                \* globs that match a directory's own path but none of the files in it
                [form |-> "name", arg |-> "pkg.py"], [form |-> "exactdir", arg |-> <<"src">>],
                \* an exact path WITHOUT a directory part: the root-level file only, not its namesakes further down
                [form |-> "exact", arg |-> P(<<>>, "f.py", "py")] }
=============================================================================
