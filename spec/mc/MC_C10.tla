------------------------------ MODULE MC_C10 ------------------------------
EXTENDS Ranges
CONSTANT Wide     \* TRUE (thorough tier): more lines before the tag, longer comments after it
Pre == IF Wide THEN 0..4 ELSE 0..1
More == IF Wide THEN 1..4 ELSE 1..2
\* form: concrete comment form (spelled by the concretiser); the numbers are what the arithmetic needs
L(form, pre, tagl, more, cend, inline) == [form |-> form, pre |-> pre, tagl |-> tagl, more |-> more, cend |-> cend, inline |-> inline, cont |-> 0]
\* Markdown containers: every line of the file carries a prefix of `cont` columns ("- " / two spaces in a list item, "> " in a
\* block quote); "div*" forms put the comment on the second line of an HTML block that starts with a <div> line
LC(form, pre, tagl, more) == [form |-> form, pre |-> pre, tagl |-> tagl, more |-> more, cend |-> 0, inline |-> FALSE, cont |-> 2]
MCLayouts ==
  {L("hash", p, 0, 0, 0, FALSE) : p \in 0..2 \cup Pre}
  \cup {L("trail", p, 0, 0, 0, FALSE) : p \in Pre}
  \cup {L("cblock", p, 0, 0, 0, FALSE) : p \in Pre}
  \cup {L("cinline", p, 0, 0, 120, TRUE) : p \in Pre}
  \cup {L("mltop", p, 0, m, 0, FALSE) : p \in Pre, m \in More}
  \cup {L("mltopinline", 0, 0, 1, 12, TRUE)}
  \cup {L("mlmid", p, 1, 1, 0, FALSE) : p \in Pre}
  \cup {L("mllast", 0, 2, 0, 0, FALSE)}
  \cup {L("xml", p, 0, 0, 0, FALSE) : p \in Pre}
  \cup {L("mxml", 0, 1, 1, 0, FALSE)}
  \cup {L("mdparen", 1, 0, 0, 0, FALSE)}
  \cup {LC("xmlli", p, 0, 0) : p \in 0..2} \cup {LC("xmlbq", p, 0, 0) : p \in 0..2}
  \cup {LC("mxmlli", p, 1, 1) : p \in 0..1} \cup {LC("mxmlbq", 1, 1, 1)}
  \cup {LC("divli", p, 0, 0) : p \in 1..2} \cup {LC("divbq", 1, 0, 0)} \cup {L("div", p, 0, 0, 0, FALSE) : p \in 1..2}
=============================================================================
