\* line-count, exhaustive: every block of <= MaxLen lines x operator x N in 0..MaxN x spelling
CONSTANTS
  Lines <- MCLines
  Configs <- MCConfigs
  MaxLen = 4
  WithUws = TRUE
  MaxN = 5
INIT Init
NEXT Next
INVARIANTS TypeOK ImplMeetsContract CountIsPrefixCount Emit
