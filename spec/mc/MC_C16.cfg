\* Grammar: every base name of <= MaxComp components over the component alphabet x 0..1 remapping
CONSTANTS
  Components <- CompSet
  CompSet = {"x", "X", "", "bak", "d", "ts", "go", "mod", "Makefile", "makefile", "py", "PY", "rs", "md", "cxx", "sum", "MAKEFILE", "Gemfile", "uname"}
  MaxComp = 3
  Table <- MCTable
  RemapPool <- MCRemapPool
  RemapPairs <- MCRemapPairs
INIT Init
NEXT Next
INVARIANTS TypeOK WalkMeetsContract Emit
