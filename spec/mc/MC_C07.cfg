\* keep-unique, exhaustive: every block of <= MaxLen lines x {no regex, group regex, plain regex}
CONSTANTS
  Lines <- MCLinesSel
  Star = FALSE
  Wide = TRUE
  Configs <- MCConfigs
  MaxLen = 4
INIT Init
NEXT Next
INVARIANTS TypeOK ImplMeetsContract SeenIsKeysSoFar AtMostOneViolation Emit
