\* line-pattern, exhaustive: every block of <= MaxLen lines x pattern family
CONSTANTS
  Lines <- MCLines
  Configs <- MCConfigs
  MaxLen = 4
INIT Init
NEXT Next
INVARIANTS TypeOK ImplMeetsContract AtMostOneViolation Emit
