------------------------------ MODULE MC_C06 ------------------------------
(* keep-sorted (C06): alphabet and configurations for the exhaustive check. *)
EXTENDS Rules

CONSTANT UseNum   \* FALSE: lexicographic alphabet; TRUE: numeric alphabet and format

\* code points:  a=97 b=98  '2'=50 '1'=49 '0'=48 '9'=57 '.'=46 '5'=53 '-'=45 '3'=51  é = 233
K_a  == <<97>>
K_b  == <<98>>
K_ab == <<97, 98>>
K_B  == <<66>>              \* "B": upper case sorts before lower case by code point
K_e  == <<233>>             \* "é": multi-byte in UTF-8, one code point
K_2  == <<50>>
K_10 == <<49, 48>>
K_95 == <<57, 46, 53>>      \* "9.5"
K_m3 == <<45, 51>>          \* "-3"
K_m5 == <<45, 53>>          \* "-5": same length as "-3" -- text order is the reverse of numeric order

L(form, key, indent, trail, sfx) == [form |-> form, key |-> key, indent |-> indent, trail |-> trail, sfx |-> sfx]

LexLines == { L("k", K_a, 0, 0, 0), L("k", K_b, 0, 0, 0), L("k", K_b, 2, 1, 0), L("k", K_ab, 0, 0, 0),
              L("k", K_B, 0, 0, 0), L("k", K_e, 0, 0, 0),
              L("k", K_2, 0, 0, 0), L("k", K_10, 0, 0, 0),
              L("id", K_a, 0, 0, 0), L("id", K_b, 1, 0, 1), L("kv", K_a, 0, 0, 0), L("kv", K_b, 0, 0, 2),
              L("blank", <<>>, 0, 0, 0), L("ws", <<>>, 2, 0, 0), L("uws", <<>>, 1, 0, 0) }
NumLines == { L("k", K_2, 0, 0, 0), L("k", K_10, 0, 0, 0), L("k", K_10, 2, 1, 0), L("k", K_95, 0, 0, 0),
              L("k", K_m3, 0, 0, 0), L("k", K_m5, 0, 0, 0),
              L("id", K_2, 0, 0, 0), L("id", K_10, 0, 0, 1), L("id", K_m3, 1, 0, 0),
              L("kv", K_a, 0, 0, 0), L("k", K_a, 0, 0, 0),
              L("blank", <<>>, 0, 0, 0) }

CONSTANT Star   \* TRUE: the small alphabets for the regex whose group may be empty
StarLexLines == { L("ide", <<>>, 0, 0, 0), L("ide", <<>>, 1, 0, 1), L("ide", K_a, 0, 0, 0), L("ide", K_b, 0, 0, 0),
                  L("id", K_b, 0, 0, 0), L("k", K_a, 0, 0, 0), L("blank", <<>>, 0, 0, 0) }
StarNumLines == { L("ide", <<>>, 0, 0, 0), L("ide", K_2, 0, 0, 0), L("ide", K_10, 0, 0, 1), L("ide", K_m3, 0, 0, 0),
                  L("k", K_2, 0, 0, 0), L("blank", <<>>, 0, 0, 0) }
MCLines == IF Star THEN (IF UseNum THEN StarNumLines ELSE StarLexLines) ELSE IF UseNum THEN NumLines ELSE LexLines

C(dir, sp, pat, fmt) == [kind |-> "sorted", dir |-> dir, sp |-> sp, pat |-> pat, fmt |-> fmt,
                          lp |-> "any", op |-> "==", n |-> 0]
\* sp = spelling of the direction attribute: "" | asc | ASC | desc | Desc
MCConfigs == { C(d[1], d[2], p, IF UseNum THEN "num" ELSE "lex") :
                 d \in {<<"asc", "">>, <<"asc", "asc">>, <<"asc", "ASC">>, <<"desc", "desc">>, <<"desc", "Desc">>},
                 p \in (IF Star THEN {"gstar"} ELSE {"none", "group", "plain", "galt", "ganch"}) }
=============================================================================
