------------------------------ MODULE MC_C08 ------------------------------
(* line-pattern (C08): alphabet and pattern family for the exhaustive check. *)
EXTENDS Rules

L(form, key, indent, trail, sfx) == [form |-> form, key |-> key, indent |-> indent, trail |-> trail, sfx |-> sfx]

\* matching / non-matching / partially matching / indented / blank lines for
\*   ^[a-z]+$   [0-9]   ^x   ^.{3,}$   ^[a-z]*$   ^(x.*)?$
MCLines == { L("k", <<97, 98>>, 0, 0, 0),          \* "ab"
             L("k", <<97, 98>>, 3, 2, 0),          \* "   ab  "  (matches only after trimming)
             L("k", <<97, 49>>, 0, 0, 0),          \* "a1"      partial for ^[a-z]+$
             L("k", <<120>>, 0, 0, 0),             \* "x"
             L("k", <<120, 57>>, 1, 0, 0),         \* " x9"
             L("k", <<65, 120>>, 0, 0, 0),         \* "Ax"      x not at start
             L("k", <<49>>, 0, 0, 0),              \* "1"
             L("k", <<233>>, 0, 0, 0),             \* "é"
             L("k", <<97>>, 0, 0, 1),              \* "a #1"
             L("blank", <<>>, 0, 0, 0), L("ws", <<>>, 2, 0, 0), L("uws", <<>>, 2, 0, 0) }

MCConfigs == { [kind |-> "pattern", dir |-> "asc", sp |-> "", pat |-> "none", fmt |-> "lex",
                lp |-> p, op |-> "==", n |-> 0] : p \in {"lower", "digit", "startx", "min3", "lower0", "optx"} }
=============================================================================
