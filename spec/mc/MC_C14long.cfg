\* Flags: long invocations over three names (repetition composes as union, however often)
CONSTANTS
  MaxArgs = 8
  Names = {"keep-sorted", "keep-unique", "line-count"}
  Known = {"keep-sorted", "keep-unique", "line-count"}
  FlagSet = {"d"}
INIT Init
NEXT Next
INVARIANTS KnownOk Emit
