------------------------------ MODULE MC_C09 ------------------------------
(* line-count (C09): operator x bound x block shape for the exhaustive check. *)
EXTENDS Rules
CONSTANT WithUws   \* TRUE: the alphabet also holds a line of non-ASCII white space (FALSE in the 6-line run of the thorough tier)

CONSTANT MaxN

L(form, key, indent, trail, sfx) == [form |-> form, key |-> key, indent |-> indent, trail |-> trail, sfx |-> sfx]

\* "tag" lines are the tag lines of a nested block: they count like any other line
MCLines == { L("k", <<97>>, 0, 0, 0), L("k", <<98>>, 2, 0, 0), L("tag", <<>>, 0, 0, 0),
             L("blank", <<>>, 0, 0, 0), L("ws", <<>>, 3, 0, 0) }
             \cup (IF WithUws THEN {L("uws", <<>>, 2, 0, 0)} ELSE {})

\* sp = spelling variant of the expression: 0 "OPN", 1 "OP N", 2 " OP  N "
MCConfigs == { [kind |-> "count", dir |-> "asc", sp |-> s, pat |-> "none", fmt |-> "lex",
                lp |-> "any", op |-> o, n |-> n] :
                o \in {"<", "<=", "==", ">=", ">"}, n \in 0..MaxN, s \in {"0", "1", "2"} }
=============================================================================
