\* Run: 2 sync validators, check-lua with 2 blocks, check-ai with 1 block, every outcome, every interleaving
CONSTANTS
  NSync = 2
  NLua = 2
  NAi = 1
  WithEmptyAttr = TRUE
  HasKey = TRUE
  SyncOrder <- MCSyncOrder
  AsyncOrder <- MCAsyncOrder
  BlocksOf <- MCBlocksOf
  KindOf <- MCKindOf
  FileOf <- MCFileOf
  Files <- MCFiles
  SyncOutcomes <- MCSyncOutcomes
  TaskOutcomes <- MCTaskOutcomes
  MkDiag <- MCMkDiag
  SevOfDiag <- MCSevOfDiag
INIT Init
NEXT Next
INVARIANTS TypeOK NoLostNoDup FailClosed CompleteOnReport ExitIffError SilentWhenClean AtMostOnce ExactlyOnceOnSuccess OneDiagnosticPerString OneRequest FaultFailsClosed Deterministic
