\* DiffText: every diff of <= MaxSections sections x <= MaxHunks hunks x <= MaxBody body lines over the line classes
CONSTANTS
  MaxSections = 1
  MaxHunks = 2
  MaxBody = 2
  BodyClasses = {"plain_add", "plain_rem", "ctx", "rem_dash", "add_plus"}
INIT Init
NEXT Next
INVARIANTS TypeOK PlainDiffsAccepted Emit
