\* keep-sorted, exhaustive: every block of <= MaxLen lines x every configuration
CONSTANTS
  Lines <- MCLines
  Configs <- MCConfigs
  MaxLen = 3
  UseNum = FALSE
  Star = FALSE
INIT Init
NEXT Next
INVARIANTS TypeOK ImplMeetsContract SortedPrefixInOrder AtMostOneViolation Emit
