------------------------------ MODULE MC_Deep ------------------------------
EXTENDS Deep
\* measured on the pinned grammars: header + 4 bytes per level against the 1024-byte buffer
MCLimit == [c \in UnboundedScanner |-> IF c = "yaml_map" THEN 254 ELSE 255]
=============================================================================
