------------------------------- MODULE LuaCaps -------------------------------
(***************************************************************************)
(* C17: what a check-lua script can reach, per BLOCKWATCH_LUA_MODE.        *)
(* Lua has no ambient authority: a script can only use values it can reach *)
(* from its global environment, from the string metatable and from the     *)
(* metatables of reachable values.  A probe script records that object     *)
(* graph from inside the real interpreter (nodes = tables / functions /    *)
(* userdata, edges = keys and metatables) and exercises every dangerous    *)
(* capability.  This module models EVERY script as a sequence of the       *)
(* primitive moves a script has -- index a held table, take the metatable  *)
(* of a held value -- over the recorded graph: `held` only grows, so the   *)
(* fixed point TLC reaches is the set of values any script can ever hold.  *)
(* A third root is what a script gets by CALLING what it holds: a chunk    *)
(* compiled by `load` without an explicit environment runs in the          *)
(* interpreter's global table ("@loadenv"), which need not be the table    *)
(* the script itself runs in; its keys count as globals too.               *)
(* Policy per mode (contract):                                             *)
(*   sandbox (unset, "sandboxed", any other value): globals limited to the *)
(*     base names minus dofile/loadfile/require plus coroutine, table,     *)
(*     string, utf8, math; every held function is Pure / Env / Out; no     *)
(*     file, OS, loader, native or debug capability works;                 *)
(*   safe: additionally io, os, package, require, dofile, loadfile -- but  *)
(*     no native-module loading and no debug;                              *)
(*   unsafe: everything, including native loading and debug.               *)
(* An unclassified top-level name is a violation (fail closed).            *)
(***************************************************************************)
EXTENDS Integers, Sequences, FiniteSets, TLC, Json, IOUtils

G == JsonDeserialize(IOEnv.GRAPH)
\* G.mode, G.nodes : seq of [id, t, top, path], G.edges : seq of [c, p, k], G.works : [name -> BOOLEAN], G.globals : seq

VARIABLES held, round
vars == <<held, round>>

NodeIds == {G.nodes[i].id : i \in 1..Len(G.nodes)}
Node(id) == G.nodes[CHOOSE i \in 1..Len(G.nodes) : G.nodes[i].id = id]
Children(S) == {G.edges[i].c : i \in {j \in 1..Len(G.edges) : G.edges[j].p \in S}}
Roots == {G.edges[i].c : i \in {j \in 1..Len(G.edges) : G.edges[j].p = 0}}

Init == held = Roots /\ round = 0
\* one round of primitive moves: index every held table by every key, take every held value's metatable
Expand == /\ Children(held) \ held # {}
          /\ held' = held \cup Children(held) /\ round' = round + 1
Next == Expand
Spec == Init /\ [][Next]_vars
Closed == Children(held) \subseteq held

----------------------------------------------------------------------------
Policy == IF G.mode = "unsafe" THEN "unsafe" ELSE IF G.mode = "safe" THEN "safe" ELSE "sandbox"

BaseNames == {"assert", "collectgarbage", "error", "getmetatable", "ipairs", "load", "next", "pairs", "pcall", "print",
              "rawequal", "rawget", "rawlen", "rawset", "select", "setmetatable", "tonumber", "tostring", "type", "warn",
              "xpcall", "_G", "_VERSION", "validate"}
PureLibs == {"coroutine", "table", "string", "utf8", "math"}
AllowedGlobals == CASE Policy = "sandbox" -> BaseNames \cup PureLibs
                    [] Policy = "safe"    -> BaseNames \cup PureLibs \cup {"io", "os", "package", "require", "dofile", "loadfile"}
                    [] Policy = "unsafe"  -> BaseNames \cup PureLibs \cup {"io", "os", "package", "require", "dofile", "loadfile", "debug"}

\* capability class of a held function, by the top-level name it hangs under
ClassOfTop(top) ==
  CASE top \in PureLibs \cup {"@stringmt"} -> "Pure"
    [] top \in {"print", "warn"} -> "Out"
    [] top \in {"load", "pcall", "xpcall", "error", "assert", "collectgarbage", "select", "next", "pairs", "ipairs", "type",
                "tostring", "tonumber", "rawequal", "rawget", "rawlen", "rawset", "getmetatable", "setmetatable", "validate", "_G"}
         -> "Env"
    [] top \in {"dofile", "loadfile", "require"} -> "DiskLoader"
    [] top = "io" -> "FS"
    [] top = "os" -> "OS"
    [] top = "package" -> "Loader"
    [] top = "debug" -> "Debug"
    [] OTHER -> "unknown"
AllowedClasses == CASE Policy = "sandbox" -> {"Pure", "Out", "Env"}
                    [] Policy = "safe"    -> {"Pure", "Out", "Env", "DiskLoader", "FS", "OS", "Loader"}
                    [] Policy = "unsafe"  -> {"Pure", "Out", "Env", "DiskLoader", "FS", "OS", "Loader", "Debug"}

\* capabilities that must not WORK (exercised by the probe), per policy
MustNotWork == CASE Policy = "sandbox" -> {"dofile", "loadfile", "require", "io.open", "io.lines", "io.popen", "os.getenv",
                                           "os.execute", "os.remove", "package.loadlib", "package.cpath_searcher",
                                           "debug.getregistry", "debug.getinfo", "coroutine-io", "gmt-string-index-io",
                                           "load-loadfile", "load-dofile", "load-io", "load-os", "load-require"}
                 [] Policy = "safe"    -> {"package.loadlib", "package.cpath_searcher", "debug.getregistry", "debug.getinfo",
                                           "gmt-string-index-io"}
                 [] Policy = "unsafe"  -> {}
MustWork == CASE Policy = "sandbox" -> {"load"}
              [] Policy = "safe"    -> {"io.open", "os.getenv", "require"}
              [] Policy = "unsafe"  -> {"io.open", "os.getenv", "require", "package.loadlib", "debug.getregistry"}

HeldFunctionsAllowed == \A id \in held : Node(id).t = "f" => ClassOfTop(Node(id).top) \in AllowedClasses
NothingUnclassified  == \A id \in held : ClassOfTop(Node(id).top) # "unknown"
GlobalsAllowed       == \A i \in 1..Len(G.globals) : G.globals[i] \in AllowedGlobals
NoForbiddenCapabilityWorks == \A c \in MustNotWork : c \in DOMAIN G.works => ~G.works[c]
GrantedCapabilitiesWork    == \A c \in MustWork : c \in DOMAIN G.works => G.works[c]
\* the probe's own closure and the specification's fixed point coincide
ProbeClosureIsComplete == Closed => held = NodeIds

Accepted == IF TLCGet("stats").diameter >= 1 THEN TRUE ELSE FALSE
=============================================================================
