------------------------------- MODULE Detect -------------------------------
(***************************************************************************)
(* src/validators/mod.rs `detect_validators` (C14, C20).                   *)
(* A stack of the effective detectors is popped against each block in turn;*)
(* a detector that fires instantiates its validator and is consumed, the   *)
(* others are pushed back for the next block; the loop over files and      *)
(* blocks stops as soon as every detector has fired.  Files come in        *)
(* HashMap order, i.e. any order.                                          *)
(* Contract: at the end exactly the effective validators that some block   *)
(* needs are instantiated, each once -- whatever the visiting order.       *)
(***************************************************************************)
EXTENDS Integers, Sequences, FiniteSets, TLC

CONSTANTS AllDets,     \* sequence: DETECTOR_FACTORIES order
          FileSet,     \* set of files
          NBlocks,     \* blocks per file
          NeedsSpace   \* set of functions [FileSet -> [1..NBlocks -> SUBSET detectors]] to explore

VARIABLES needs,    \* input: which detectors fire on which block
          enabled, disabled,   \* input: the -e / -d sets
          stack,    \* validator_detectors (top = last element)
          undet,    \* undetected, for the current block
          todo,     \* files not yet visited
          cur,      \* current file or "none"
          bi,       \* index of the current block in cur
          inst,     \* sequence of instantiated validators (a detector name per push)
          pc        \* "file" | "block" | "pop" | "done"

vars == <<needs, enabled, disabled, stack, undet, todo, cur, bi, inst, pc>>

DetSet == {AllDets[k] : k \in 1..Len(AllDets)}

\* the filter at the top of detect_validators
Effective(en, dis) == IF en # {} THEN en ELSE DetSet \ dis
EffStack(en, dis) == SelectSeq(AllDets, LAMBDA d : d \in Effective(en, dis))

Init ==
  /\ needs \in NeedsSpace
  /\ \E en \in SUBSET DetSet, dis \in SUBSET DetSet :
        /\ (en = {} \/ dis = {})            \* using both is rejected up front (flags.rs validate)
        /\ enabled = en /\ disabled = dis
        /\ stack = EffStack(en, dis)
  /\ undet = <<>> /\ todo = FileSet /\ cur = "none" /\ bi = 0 /\ inst = <<>> /\ pc = "file"

\* `for file_blocks in context.blocks.values()` -- any order
PickFile ==
  /\ pc = "file" /\ todo # {}
  /\ \E f \in todo : cur' = f /\ todo' = todo \ {f}
  /\ bi' = 1 /\ pc' = "block"
  /\ UNCHANGED <<needs, enabled, disabled, stack, undet, inst>>

AllFilesDone ==
  /\ pc = "file" /\ todo = {}
  /\ pc' = "done" /\ UNCHANGED <<needs, enabled, disabled, stack, undet, todo, cur, bi, inst>>

\* `for block in &file_blocks.blocks_with_context { let mut undetected = Vec::new(); ...`
VisitBlock ==
  /\ pc = "block"
  /\ IF bi > NBlocks THEN pc' = "file" /\ UNCHANGED undet
     ELSE pc' = "pop" /\ undet' = <<>>
  /\ UNCHANGED <<needs, enabled, disabled, stack, todo, cur, bi, inst>>

\* `while let Some(detector) = validator_detectors.pop()`
PopDetector ==
  /\ pc = "pop" /\ stack # <<>>
  /\ LET d == stack[Len(stack)] IN
     /\ stack' = SubSeq(stack, 1, Len(stack) - 1)
     /\ IF d \in needs[cur][bi]
        THEN inst' = Append(inst, d) /\ UNCHANGED undet
        ELSE undet' = Append(undet, d) /\ UNCHANGED inst
  /\ UNCHANGED <<needs, enabled, disabled, todo, cur, bi, pc>>

\* `if undetected.is_empty() { break 'outer } validator_detectors.extend(undetected)`
EndBlock ==
  /\ pc = "pop" /\ stack = <<>>
  /\ IF undet = <<>> THEN pc' = "done" /\ UNCHANGED <<stack, bi>>
     ELSE stack' = undet /\ bi' = bi + 1 /\ pc' = "block"
  /\ UNCHANGED <<needs, enabled, disabled, undet, todo, cur, inst>>

Next == PickFile \/ AllFilesDone \/ VisitBlock \/ PopDetector \/ EndBlock
Spec == Init /\ [][Next]_vars /\ WF_vars(Next)

----------------------------------------------------------------------------
Needed(nd) == UNION {nd[f][b] : f \in FileSet, b \in 1..NBlocks}
InstSet == {inst[k] : k \in 1..Len(inst)}

\* C14: exactly the effective validators that some block needs, each once, for every visiting order
DetectComplete == pc = "done" => /\ InstSet = Effective(enabled, disabled) \cap Needed(needs)
                                 /\ Len(inst) = Cardinality(InstSet)
\* nothing outside the selection is ever instantiated, at any time
OnlyEffective == InstSet \subseteq Effective(enabled, disabled)
\* no detector is lost: every effective detector is on the stack, parked in undet, or consumed
Conservation == pc # "done" =>
                  {stack[k] : k \in 1..Len(stack)} \cup {undet[k] : k \in 1..Len(undet)} \cup InstSet
                    = Effective(enabled, disabled)
TypeOK == pc \in {"file", "block", "pop", "done"}
Terminates == <>(pc = "done")
=============================================================================
