----------------------------- MODULE RuleSyntax -----------------------------
(***************************************************************************)
(* C13: which rule attribute values are well-formed.  Each attribute is a  *)
(* sequence of tokens (every token has a fixed spelling); the contract is  *)
(* a validity predicate over the token sequence, written from the          *)
(* property statement and the README; TLC enumerates every token sequence  *)
(* up to MaxTok and emits it with its verdict; the conformance harness     *)
(* puts the spelled value on a block among healthy blocks and files and    *)
(* requires: malformed => the run fails (non-zero exit, explanatory error, *)
(* no crash); well-formed => no error.  The fail-closed propagation of a   *)
(* validator's Err through every interleaving is Run!FailClosed.           *)
(* Where the statement hedges (regex only on a block with content, affects *)
(* only on a modified block, severity only on a violating block, a single  *)
(* non-numeric key) the harness builds the un-hedged situation.            *)
(***************************************************************************)
EXTENDS Integers, Sequences, FiniteSets, TLC, Json

CONSTANTS MaxTok, Kind        \* Kind: which attribute grammar to enumerate

VARIABLES toks, done
vars == <<toks, done>>

Blank == {"sp", "tab"}
StripL(s) == LET ks == {k \in 1..Len(s) : s[k] \notin Blank} IN
             IF ks = {} THEN <<>> ELSE SubSeq(s, CHOOSE k \in ks : \A j \in ks : k <= j, Len(s))
StripR(s) == LET ks == {k \in 1..Len(s) : s[k] \notin Blank} IN
             IF ks = {} THEN <<>> ELSE SubSeq(s, 1, CHOOSE k \in ks : \A j \in ks : k >= j)
Trim(s) == StripR(StripL(s))

----------------------------------------------------------------------------
(* line-count="OP N": OP one of < <= == >= >, optional blanks around, N a decimal natural number *)
CountOps == {"lt", "le", "eq2", "ge", "gt"}
CountToks == CountOps \cup {"eq1", "d3", "d0", "big", "neg", "word", "sp", "tab"}
IsDigitTok(t) == t \in {"d3", "d0"}
ValidCount(s) ==
  LET t == Trim(s) IN
  /\ Len(t) >= 2 /\ t[1] \in CountOps
  /\ LET r == StripL(Tail(t)) IN Len(r) >= 1 /\ \A k \in 1..Len(r) : IsDigitTok(r[k])
\* spellings that would glue into a different operator are not generated: "<" "=" , ">" "=" , "=" "="
GlueFree(s) == \A k \in 1..(Len(s) - 1) : ~(s[k] \in {"lt", "gt", "eq1"} /\ s[k + 1] \in {"eq1", "eq2"})
\* the bound the expression denotes (d3 = digit 3, d0 = digit 0), for the semantic half of the replay
RECURSIVE NumVal(_)
NumVal(r) == IF r = <<>> THEN 0 ELSE NumVal(SubSeq(r, 1, Len(r) - 1)) * 10 + (IF r[Len(r)] = "d3" THEN 3 ELSE 0)
CountMeaning(s) == LET t == Trim(s) IN [op |-> t[1], n |-> NumVal(StripL(Tail(t)))]

(* keep-sorted="DIR": empty or blank => asc; asc / desc in any letter case; nothing else *)
DirToks == {"asc", "ASC", "desc", "Desc", "x", "sp"}
ValidDir(s) == \/ \A k \in 1..Len(s) : s[k] \in Blank
               \/ (Len(s) = 1 /\ s[1] \in {"asc", "ASC", "desc", "Desc"})

(* keep-sorted-format="F": blank => lexicographic; numeric / lexicographic in any case, blanks around allowed *)
FmtToks == {"numeric", "Numeric", "lexicographic", "num", "x", "sp"}
ValidFmt(s) == LET t == Trim(s) IN t = <<>> \/ (Len(t) = 1 /\ t[1] \in {"numeric", "Numeric", "lexicographic"})

(* severity="S" on a block that has a violation: error / warning / info / hint in any letter case *)
SevToks == {"error", "Warning", "INFO", "hint", "fatal", "x", "sp"}
ValidSev(s) == Len(s) = 1 /\ s[1] \in {"error", "Warning", "INFO", "hint"}

(* affects="REF, REF, ..." on a modified block: every comma-separated reference contains a colon *)
AffToks == {"ref", "fref", "bare", "comma", "sp"}
RECURSIVE Parts(_)
Parts(s) == LET cs == {k \in 1..Len(s) : s[k] = "comma"} IN
            IF cs = {} THEN <<s>>
            ELSE LET c == CHOOSE k \in cs : \A j \in cs : k <= j
                 IN <<SubSeq(s, 1, c - 1)>> \o Parts(SubSeq(s, c + 1, Len(s)))
ValidAff(s) == \A k \in 1..Len(Parts(s)) : \E j \in 1..Len(Parts(s)[k]) : Parts(s)[k][j] \in {"ref", "fref"}
\* two references glued together without a comma read as one reference with an odd name: not generated
AffClean(s) == \A k \in 1..(Len(s) - 1) : ~(s[k] \in {"ref", "fref", "bare"} /\ s[k + 1] \in {"ref", "fref", "bare"})

(* regexes (keep-sorted-pattern, keep-unique, line-pattern, check-lua-pattern, check-ai-pattern) on a block with content *)
ReToks == {"lit", "dot", "star", "lpar", "rpar", "lbr", "rbr", "named"}
\* balanced round and square brackets, no quantifier without operand; "named" is (?P<value>x) as one token
RECURSIVE Depth(_, _)
Depth(s, d) == IF s = <<>> THEN d
               ELSE IF d < 0 THEN d
               ELSE Depth(Tail(s), IF Head(s) = "lpar" THEN d + 1 ELSE IF Head(s) = "rpar" THEN d - 1 ELSE d)
NoBr(s) == \A k \in 1..Len(s) : s[k] \notin {"lbr", "rbr"}
NamedCount(s) == Cardinality({k \in 1..Len(s) : s[k] = "named"})
Plain(s) == NoBr(s) /\ NamedCount(s) <= 1             \* bracket classes and repeated group names: gray
ValidRe(s) == /\ Plain(s)
              /\ Depth(s, 0) = 0
              /\ \A k \in 1..Len(s) : s[k] = "star" => (k > 1 /\ s[k - 1] \in {"lit", "dot", "rpar", "named"})
InvalidRe(s) == Plain(s) /\ (Depth(s, 0) # 0 \/ \E k \in 1..Len(s) : s[k] = "star" /\ (k = 1 \/ s[k - 1] = "lpar"))
\* everything else (brackets, "**", duplicate group names) is gray: the regex crate decides
----------------------------------------------------------------------------
TokSet == CASE Kind = "count" -> CountToks [] Kind = "dir" -> DirToks [] Kind = "fmt" -> FmtToks
            [] Kind = "sev" -> SevToks [] Kind = "aff" -> AffToks [] Kind = "re" -> ReToks

Admissible(s) == CASE Kind = "count" -> GlueFree(s) [] Kind = "aff" -> AffClean(s) [] OTHER -> TRUE

Verdict(s) ==
  CASE Kind = "count" -> IF ValidCount(s) THEN "valid" ELSE "invalid"
    [] Kind = "dir"   -> IF ValidDir(s) THEN "valid" ELSE "invalid"
    [] Kind = "fmt"   -> IF ValidFmt(s) THEN "valid" ELSE "invalid"
    [] Kind = "sev"   -> IF ValidSev(s) THEN "valid" ELSE "invalid"
    [] Kind = "aff"   -> IF ValidAff(s) THEN "valid" ELSE "invalid"
    [] Kind = "re"    -> IF ValidRe(s) /\ ~InvalidRe(s) THEN "valid" ELSE IF InvalidRe(s) THEN "invalid" ELSE "gray"

Init == /\ toks \in UNION {[1..n -> TokSet] : n \in 0..MaxTok} /\ Admissible(toks) /\ done = FALSE
Next == ~done /\ done' = TRUE /\ UNCHANGED toks
Spec == Init /\ [][Next]_vars

\* sanity of the grammar itself
ValidInvalidDisjoint == Kind = "re" => ~(ValidRe(toks) /\ InvalidRe(toks))
Emit == done => PrintT(<<"CASE", ToJson([kind |-> Kind, toks |-> toks, verdict |-> Verdict(toks),
                                          meaning |-> IF Kind = "count" /\ ValidCount(toks) THEN CountMeaning(toks)
                                                      ELSE [op |-> "", n |-> 0]])>>)
=============================================================================
