------------------------------- MODULE DiffText -------------------------------
(***************************************************************************)
(* C01, acceptance clause: "any ordinary two-way diff that git emits for   *)
(* text files is accepted, whatever the files contain".                    *)
(* A diff is a sequence of file sections; a section has the two header     *)
(* lines and hunks; a hunk has a header and body lines.  What matters for  *)
(* the parser is the CLASS of a body line as it is printed:                *)
(*   plain      "+x" / "-x" / " x"                                         *)
(*   rem_dash   a removed line whose text starts with "-- "  => "--- ..."  *)
(*   add_plus   an added line whose text starts with "++ "   => "+++ ..."  *)
(*   at         a line whose text is "@@ -1 +1 @@" (printed with its sign) *)
(* Implementation-shaped part: `unidiff::PatchSet::parse` (the dependency  *)
(* blockwatch calls) -- its outer loop looks at EVERY line, including the  *)
(* body lines parse_hunk has already consumed, and classifies by regex:    *)
(* SrcHeader, TgtHeader, HunkHeader (one action per line).  Contract: the  *)
(* diff is accepted and yields exactly one entry per section.  TLC finds   *)
(* the behaviours where the as-coded loop departs from it (deviation DV3:  *)
(* body lines that look like headers).                                     *)
(***************************************************************************)
EXTENDS Integers, Sequences, FiniteSets, TLC, Json

CONSTANTS MaxSections, MaxHunks, MaxBody, BodyClasses

VARIABLES diff,        \* input: sequence of sections; section = sequence of hunks; hunk = sequence of body classes
          lines,       \* the printed diff as a sequence of line records [c, sec]
          i,           \* outer-loop cursor
          cur,         \* current_file: 0 = None, else the section it was created for
          files,       \* patched files pushed so far (section numbers; 0 = bogus)
          err          \* "none" | "TargetWithoutSource" | "UnexpectedHunk"

vars == <<diff, lines, i, cur, files, err>>

RECURSIVE Flat(_, _)
Flat(d, s) ==
  IF s > Len(d) THEN <<>>
  ELSE <<[c |-> "src", sec |-> s], [c |-> "tgt", sec |-> s]>>
       \o LET RECURSIVE Hs(_)
              Hs(h) == IF h > Len(d[s]) THEN <<>>
                       ELSE <<[c |-> "hunk", sec |-> s]>> \o [k \in 1..Len(d[s][h]) |-> [c |-> d[s][h][k], sec |-> s]] \o Hs(h + 1)
          IN Hs(1)
       \o Flat(d, s + 1)

\* git prints, inside a run of changed lines, every removed line before every added line
IsRem(c) == c \in {"plain_rem", "rem_dash"}
IsAdd(c) == c \in {"plain_add", "add_plus"}
GitNormal(h) == /\ \A k \in 1..(Len(h) - 1) : ~(IsAdd(h[k]) /\ IsRem(h[k + 1]))
                /\ \E k \in 1..Len(h) : h[k] # "ctx"
Hunks == {h \in UNION {[1..n -> BodyClasses] : n \in 1..MaxBody} : GitNormal(h)}
Sections == UNION {[1..n -> Hunks] : n \in 1..MaxHunks}
Init == /\ diff \in UNION {[1..n -> Sections] : n \in 1..MaxSections}
        /\ lines = Flat(diff, 1)
        /\ i = 1 /\ cur = 0 /\ files = <<>> /\ err = "none"

\* how the outer loop classifies a printed line
LooksSrc(l) == l.c \in {"src", "rem_dash"}          \* ^--- 
LooksTgt(l) == l.c \in {"tgt", "add_plus"}          \* ^\+\+\+ 
LooksHunk(l) == l.c = "hunk"                        \* ^@@ -a,b +c,d @@   (a body line carries its sign first)

Running == err = "none" /\ i <= Len(lines)
SrcHeader == /\ Running /\ LooksSrc(lines[i])
             /\ files' = IF cur # 0 THEN Append(files, cur) ELSE files
             /\ cur' = 0 /\ i' = i + 1 /\ UNCHANGED <<diff, lines, err>>
TgtHeader == /\ Running /\ LooksTgt(lines[i])
             /\ IF cur # 0 THEN err' = "TargetWithoutSource" /\ UNCHANGED <<cur, i>>
                ELSE cur' = (IF lines[i].c = "tgt" THEN lines[i].sec ELSE 0 - lines[i].sec) /\ i' = i + 1 /\ UNCHANGED err
             /\ UNCHANGED <<diff, lines, files>>
HunkHeader == /\ Running /\ LooksHunk(lines[i])
              /\ IF cur = 0 THEN err' = "UnexpectedHunk" /\ UNCHANGED i ELSE i' = i + 1 /\ UNCHANGED err
              /\ UNCHANGED <<diff, lines, cur, files>>
OtherLine == /\ Running /\ ~LooksSrc(lines[i]) /\ ~LooksTgt(lines[i]) /\ ~LooksHunk(lines[i])
             /\ i' = i + 1 /\ UNCHANGED <<diff, lines, cur, files, err>>
Finish == /\ err = "none" /\ i = Len(lines) + 1
          /\ files' = IF cur # 0 THEN Append(files, cur) ELSE files
          /\ cur' = 0 /\ i' = i + 1 /\ UNCHANGED <<diff, lines, err>>
Next == SrcHeader \/ TgtHeader \/ HunkHeader \/ OtherLine \/ Finish
Spec == Init /\ [][Next]_vars

Done == err # "none" \/ i = Len(lines) + 2
\* contract: accepted, one patched file per section, in order
Accepted == err = "none" /\ files = [s \in 1..Len(diff) |-> s]
HasHazard == \E s \in 1..Len(diff), h \in 1..MaxHunks, k \in 1..MaxBody :
               h <= Len(diff[s]) /\ k <= Len(diff[s][h]) /\ diff[s][h][k] \in {"rem_dash", "add_plus"}
\* without header look-alikes in the body the loop meets the contract; with them it may not (DV3)
PlainDiffsAccepted == Done /\ ~HasHazard => Accepted
TypeOK == err \in {"none", "TargetWithoutSource", "UnexpectedHunk"}

Emit == Done => PrintT(<<"CASE", ToJson([diff |-> diff, pred |-> [err |-> err, files |-> files], hazard |-> HasHazard])>>)
=============================================================================
