-------------------------------- MODULE Ranges --------------------------------
(***************************************************************************)
(* C10: where a diagnostic points.                                         *)
(* A violating block sits in a comment layout; the offending key sits on   *)
(* content line j (0 = the rest of the line on which the start-tag comment *)
(* ends).  TrueRange is where the text is; ReportedRange is the arithmetic *)
(* of the validators (keep_sorted.rs / keep_unique.rs / line_pattern.rs):  *)
(*   as first coded:  line = start-TAG line + j, column = offset in the    *)
(*                    content line + 1                (deviations R1, R2)  *)
(*   repaired (FixR): line = line where the content starts + j, and on     *)
(*                    j = 0 the column is shifted by the content's start   *)
(*                    column.                                              *)
(* Layout parameters (all in lines / character cells):                     *)
(*   pre   lines before the tag line                                       *)
(*   tagl  line of '<' within the comment (0 = first comment line)         *)
(*   more  lines the comment continues after the tag's line                *)
(*   cend  column (0-based) at which the comment ends on its last line     *)
(*   j     content line of the key; koff = 0-based column of the key       *)
(*         within its file line                                            *)
(*   cont  width of the Markdown container prefix every line carries       *)
(*         (0 outside list items / block quotes); file columns include it  *)
(***************************************************************************)
EXTENDS Integers, Sequences, FiniteSets, TLC, Json

CONSTANTS Layouts, KeyLines, KeyOffs, FixR

VARIABLES lay, j, koff, klen, done
vars == <<lay, j, koff, klen, done>>

Init == /\ lay \in Layouts /\ j \in KeyLines /\ koff \in KeyOffs /\ klen \in {1, 3}
        /\ (j = 0 => lay.inline)            \* a key on line 0 exists only when content starts on the comment's last line
        /\ (j = 0 => koff >= lay.cend + 1)  \* ... and it lies after the comment
        /\ koff >= lay.cont                 \* inside a Markdown container every line starts with the container's prefix
        /\ done = FALSE
Next == ~done /\ done' = TRUE /\ UNCHANGED <<lay, j, koff, klen>>
Spec == Init /\ [][Next]_vars

TagLine      == lay.pre + lay.tagl + 1                 \* 1-based file line of '<'
ContentLine0 == lay.pre + lay.tagl + lay.more + 1      \* file line on which the start comment ends
TrueRange == [line |-> ContentLine0 + j, c0 |-> koff + 1, c1 |-> koff + klen]

\* offset of the key inside its content line: content line 0 starts at column cend
InLine == IF j = 0 THEN koff - lay.cend ELSE koff
ReportedRange ==
  IF FixR
  THEN [line |-> ContentLine0 + j,
        c0 |-> InLine + 1 + (IF j = 0 THEN lay.cend ELSE 0), c1 |-> InLine + klen + (IF j = 0 THEN lay.cend ELSE 0)]
  ELSE [line |-> TagLine + j, c0 |-> InLine + 1, c1 |-> InLine + klen]

Agree == ReportedRange = TrueRange
\* the design after the repair points at the text for every layout
RepairedPointsAtText == FixR => Agree
\* the first coding does so exactly when the comment ends on the tag's line and the key is not on line 0
FirstCodingDeviates == ~FixR => (Agree <=> (lay.more = 0 /\ j # 0))

Emit == done => PrintT(<<"CASE", ToJson([lay |-> lay, j |-> j, koff |-> koff, klen |-> klen,
                                          true |-> TrueRange, reported |-> ReportedRange])>>)
=============================================================================
