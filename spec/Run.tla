-------------------------------- MODULE Run --------------------------------
(***************************************************************************)
(* The concurrent part of a blockwatch run (src/validators/mod.rs `run`,   *)
(* `run_sync_validators`, `run_async_validators`; check_lua.rs / check_ai  *)
(* `validate`; main.rs `process_violations`):                              *)
(*                                                                         *)
(*   main ──spawn──> T_sync : thread per sync validator, joined in spawn   *)
(*        │                   order, first Err returns                     *)
(*        └─spawn──> T_async: tokio task per async validator; each         *)
(*                            validator spawns one task per block and      *)
(*                            drains its JoinSet in COMPLETION order,      *)
(*                            first Err returns and drops (aborts) the rest*)
(*   main joins T_sync, then T_async, merges, prints, exits.               *)
(*                                                                         *)
(* One action per critical section of the code.  What a validator or a     *)
(* block task returns is chosen nondeterministically when it finishes, so  *)
(* TLC explores every outcome under every interleaving, and the trace      *)
(* specification (spec/trace/TraceRun.tla) can bind the outcomes to the    *)
(* logged events.                                                          *)
(*                                                                         *)
(* Properties: C11 (NoLostNoDup, ExitIffError, SilentWhenClean),           *)
(* C13 (FailClosed), C18 (AtMostOnce, ExactlyOnceOnSuccess, ErrFailsRun),  *)
(* C19 (OneRequest, ReplyDecides, FaultFailsClosed), C20 (Deterministic).  *)
(***************************************************************************)
EXTENDS Integers, Sequences, FiniteSets, TLC

CONSTANTS SyncOrder,     \* sequence of sync validator ids in spawn order (HashMap order of detection)
          AsyncOrder,    \* sequence of async validator ids in spawn order
          BlocksOf,      \* function: async validator -> sequence of its block ids, in spawn order
          KindOf,        \* function: async validator -> "lua" | "ai"
          FileOf,        \* function: block id -> file
          Files,         \* set of files
          SyncOutcomes,  \* function: sync validator -> set of possible results ("err" or file -> seq of diags)
          TaskOutcomes,  \* function: kind -> set of possible task results, see Ret below
          HasKey,        \* BOOLEAN: BLOCKWATCH_AI_API_KEY present
          MkDiag(_, _, _),  \* (async validator, block, task result) -> the diagnostic it yields
          SevOfDiag(_)      \* diagnostic -> numeric severity (1 = error)

VARIABLES thr, spawnI, joinI, result, syncAcc, syncRes,              \* T_sync
          avState, avSpawnI, tstate, calls, reqs, ret, joined, avAcc, avRes, \* async validators and their block tasks
          outerSpawnI, outerJoined, asyncAcc, asyncRes,              \* T_async
          mainPc, final, report, exit                                \* main

svars == <<thr, spawnI, joinI, result, syncAcc, syncRes>>
avars == <<avState, avSpawnI, tstate, calls, reqs, ret, joined, avAcc, avRes>>
ovars == <<outerSpawnI, outerJoined, asyncAcc, asyncRes>>
mvars == <<mainPc, final, report, exit>>
vars  == <<svars, avars, ovars, mvars>>

SV == {SyncOrder[k] : k \in 1..Len(SyncOrder)}
AV == {AsyncOrder[k] : k \in 1..Len(AsyncOrder)}
BlocksSet(a) == {BlocksOf[a][k] : k \in 1..Len(BlocksOf[a])}
AllBlocks == UNION {BlocksSet(a) : a \in AV}

----------------------------------------------------------------------------
(* Diagnostics: a result is a function file -> sequence of diagnostics (the code's
   HashMap<PathBuf, Vec<Violation>>); a diagnostic is any value with a field `sev`. *)
Empty == [f \in {} |-> <<>>]
Get(m, f) == IF f \in DOMAIN m THEN m[f] ELSE <<>>
\* `violations.entry(file).or_insert_with(Vec::new).extend(file_violations)`
Merge(acc, res) == [f \in DOMAIN acc \cup DOMAIN res |-> Get(acc, f) \o Get(res, f)]
Single(f, d) == [x \in {f} |-> <<d>>]

ElemsOf(m) == UNION {{m[f][k] : k \in 1..Len(m[f])} : f \in DOMAIN m}
CountIn(s, x) == Cardinality({k \in 1..Len(s) : s[k] = x})
\* multiset equality of two results, file by file
SameBag(a, b) == \A f \in DOMAIN a \cup DOMAIN b :
                   \A x \in {Get(a, f)[k] : k \in 1..Len(Get(a, f))} \cup {Get(b, f)[k] : k \in 1..Len(Get(b, f))} :
                      CountIn(Get(a, f), x) = CountIn(Get(b, f), x)
HasErrorSeverity(m) == \E d \in ElemsOf(m) : SevOfDiag(d) = 1
NonEmptyFiles(m) == {f \in DOMAIN m : Len(m[f]) > 0}

(* Results are records so that TLC can compare them.
   sync validator : [st |-> "err"] | [st |-> "ok", m |-> file -> seq of diagnostics]
   block task     : lua: [k |-> "nil"] | [k |-> "str", sev |-> n] | [k |-> "err"]
                    ai : the endpoint's reply [k |-> "ok"] | [k |-> "text", sev |-> n] | [k |-> "fault"],
                         or [k |-> "nokey"] when BLOCKWATCH_AI_API_KEY is missing (nothing is sent)
                    [k |-> "emptyattr"]: the attribute value is blank -- found by the spawn loop *)
IsErrRet(r)  == r.k \in {"err", "nokey", "fault"}
IsDiagRet(r) == r.k \in {"str", "text"}
DiagOf(a, b, r) == MkDiag(a, b, r)

----------------------------------------------------------------------------
Init ==
  /\ thr = [v \in SV |-> "idle"] /\ spawnI = 1 /\ joinI = 1
  /\ result = [v \in SV |-> [st |-> "pending"]]
  /\ syncAcc = Empty /\ syncRes = "pending"
  /\ avState = [a \in AV |-> "unspawned"] /\ avSpawnI = [a \in AV |-> 1]
  /\ tstate = [b \in AllBlocks |-> "unspawned"] /\ calls = [b \in AllBlocks |-> 0]
  /\ ret = [b \in AllBlocks |-> [k |-> "pending"]] /\ reqs = [b \in AllBlocks |-> 0] /\ joined = [a \in AV |-> {}]
  /\ avAcc = [a \in AV |-> Empty] /\ avRes = [a \in AV |-> "pending"]
  /\ outerSpawnI = 1 /\ outerJoined = {} /\ asyncAcc = Empty /\ asyncRes = "pending"
  /\ mainPc = "joinSync" /\ final = "pending" /\ report = Empty /\ exit = -1

Live == final = "pending"      \* once main has returned the process is gone

----------------------------------------------------------------------------
(* T_sync: run_sync_validators *)

\* handles.push(std::thread::spawn(move || validator.validate(context)))
SpawnSync ==
  /\ Live /\ spawnI <= Len(SyncOrder)
  /\ thr' = [thr EXCEPT ![SyncOrder[spawnI]] = "running"]
  /\ spawnI' = spawnI + 1
  /\ UNCHANGED <<joinI, result, syncAcc, syncRes, avars, ovars, mvars>>

\* a validator thread returns (unobserved: inside the thread)
FinishSync(v, r) ==
  /\ Live /\ thr[v] = "running"
  /\ thr' = [thr EXCEPT ![v] = "finished"] /\ result' = [result EXCEPT ![v] = r]
  /\ UNCHANGED <<spawnI, joinI, syncAcc, syncRes, avars, ovars, mvars>>

\* `for handle in handles { handle.join() ... }` -- in spawn order; first Err returns
JoinSync ==
  /\ Live /\ syncRes = "pending" /\ spawnI > Len(SyncOrder) /\ joinI <= Len(SyncOrder)
  /\ LET v == SyncOrder[joinI] IN
     /\ thr[v] = "finished"
     /\ IF result[v].st = "err"
        THEN syncRes' = "err" /\ UNCHANGED <<syncAcc, joinI>>
        ELSE syncAcc' = Merge(syncAcc, result[v].m) /\ joinI' = joinI + 1 /\ UNCHANGED syncRes
  /\ UNCHANGED <<thr, spawnI, result, avars, ovars, mvars>>

SyncDone ==
  /\ Live /\ syncRes = "pending" /\ spawnI > Len(SyncOrder) /\ joinI > Len(SyncOrder)
  /\ syncRes' = "ok"
  /\ UNCHANGED <<thr, spawnI, joinI, result, syncAcc, avars, ovars, mvars>>

----------------------------------------------------------------------------
(* T_async: run_async_validators; an async validator = check_lua / check_ai `validate` *)

AsyncLive == Live /\ asyncRes = "pending"
\* (not AsyncLive: when the outer loop has returned an Err the runtime is dropped and the other
\* validators are cancelled cooperatively -- they may still take steps until their next await, as
\* recorded traces show; nothing they do is joined or merged any more)
AVLive(a) == Live /\ avState[a] \in {"running", "joining"} /\ avRes[a] = "pending"

\* tasks.spawn(async move { validator.validate(context).await })
SpawnAV ==
  /\ AsyncLive /\ outerSpawnI <= Len(AsyncOrder)
  /\ avState' = [avState EXCEPT ![AsyncOrder[outerSpawnI]] = "running"]
  /\ outerSpawnI' = outerSpawnI + 1
  /\ UNCHANGED <<svars, avSpawnI, tstate, calls, reqs, ret, joined, avAcc, avRes, outerJoined, asyncAcc, asyncRes, mvars>>

\* the spawn loop of validate(): `tasks.spawn(async move {...})` for the next block with the attribute
SpawnTask(a) ==
  /\ AVLive(a) /\ avState[a] = "running" /\ avSpawnI[a] <= Len(BlocksOf[a])
  /\ tstate' = [tstate EXCEPT ![BlocksOf[a][avSpawnI[a]]] = "spawned"]
  /\ avSpawnI' = [avSpawnI EXCEPT ![a] = @ + 1]
  /\ UNCHANGED <<svars, avState, calls, reqs, ret, joined, avAcc, avRes, ovars, mvars>>

\* the spawn loop meets an empty script path / empty condition: `return Err(..)` -- JoinSet dropped
EmptyAttrErr(a) ==
  /\ AVLive(a) /\ avState[a] = "running"      \* anywhere in the spawn loop (HashMap order of blocks)
  /\ [k |-> "emptyattr"] \in TaskOutcomes[KindOf[a]]
  /\ avRes' = [avRes EXCEPT ![a] = "err"]
  /\ UNCHANGED <<svars, avState, avSpawnI, tstate, calls, reqs, ret, joined, avAcc, ovars, mvars>>

\* the spawn loop is over; validate() starts draining its JoinSet
SpawnLoopDone(a) ==
  /\ AVLive(a) /\ avState[a] = "running" /\ avSpawnI[a] > Len(BlocksOf[a])
  /\ avState' = [avState EXCEPT ![a] = "joining"]
  /\ UNCHANGED <<svars, avSpawnI, tstate, calls, reqs, ret, joined, avAcc, avRes, ovars, mvars>>

\* the task body starts: lua -- `run_lua_script` calls validate(ctx, content);
\*                       ai  -- `check_block`: without a key it fails before sending, else one request is sent
Call(b) ==
  /\ Live /\ tstate[b] = "spawned"
  /\ tstate' = [tstate EXCEPT ![b] = "called"]
  /\ calls' = [calls EXCEPT ![b] = @ + 1]
  /\ UNCHANGED <<svars, avState, avSpawnI, reqs, ret, joined, avAcc, avRes, ovars, mvars>>

\* ai with a key: exactly one chat-completion request goes out
Send(a, b) ==
  /\ Live /\ b \in BlocksSet(a) /\ KindOf[a] = "ai" /\ HasKey /\ tstate[b] = "called"
  /\ tstate' = [tstate EXCEPT ![b] = "sent"] /\ reqs' = [reqs EXCEPT ![b] = @ + 1]
  /\ UNCHANGED <<svars, avState, avSpawnI, calls, ret, joined, avAcc, avRes, ovars, mvars>>

\* the script returns / the endpoint answers (or faults) / the key is missing
Return(a, b, r) ==
  /\ Live /\ b \in BlocksSet(a) /\ r.k # "emptyattr"
  /\ CASE KindOf[a] = "lua"            -> tstate[b] = "called" /\ r.k # "nokey"
       [] KindOf[a] = "ai" /\ HasKey   -> tstate[b] = "sent" /\ r.k # "nokey"
       [] KindOf[a] = "ai" /\ ~HasKey  -> tstate[b] = "called" /\ r.k = "nokey"
  /\ tstate' = [tstate EXCEPT ![b] = "returned"] /\ ret' = [ret EXCEPT ![b] = r]
  /\ UNCHANGED <<svars, avState, avSpawnI, calls, reqs, joined, avAcc, avRes, ovars, mvars>>

\* `while let Some(task_result) = tasks.join_next().await` -- completion order
JoinNext(a, b) ==
  /\ AVLive(a) /\ avState[a] = "joining"
  /\ b \in BlocksSet(a) \ joined[a] /\ tstate[b] = "returned"
  /\ IF IsErrRet(ret[b])
     THEN /\ avRes' = [avRes EXCEPT ![a] = "err"]          \* Err(e) => return Err(e): the JoinSet is dropped.
          \* Dropping a JoinSet aborts its tasks cooperatively: a task that a worker has already
          \* picked up may still run (observed in recorded traces), so no task state changes here;
          \* what matters is that nothing is joined or merged any more.
          /\ UNCHANGED <<joined, avAcc, tstate>>
     ELSE /\ joined' = [joined EXCEPT ![a] = @ \cup {b}]
          /\ avAcc' = [avAcc EXCEPT ![a] = IF IsDiagRet(ret[b])
                                           THEN Merge(@, Single(FileOf[b], DiagOf(a, b, ret[b]))) ELSE @]
          /\ UNCHANGED <<avRes, tstate>>
  /\ UNCHANGED <<svars, avState, avSpawnI, calls, reqs, ret, ovars, mvars>>

\* the JoinSet is empty: Ok(violations)
AVDone(a) ==
  /\ AVLive(a) /\ avState[a] = "joining" /\ joined[a] = BlocksSet(a)
  /\ avRes' = [avRes EXCEPT ![a] = "ok"]
  /\ UNCHANGED <<svars, avState, avSpawnI, tstate, calls, reqs, ret, joined, avAcc, ovars, mvars>>

\* outer `tasks.join_next()` over the async validators -- completion order; first Err returns,
\* dropping the runtime (every other task is aborted)
OuterJoin(a) ==
  /\ AsyncLive /\ outerSpawnI > Len(AsyncOrder) /\ a \in AV \ outerJoined /\ avRes[a] # "pending"
  /\ IF avRes[a] = "err"
     THEN /\ asyncRes' = "err"
          /\ UNCHANGED <<outerJoined, asyncAcc>>
     ELSE /\ outerJoined' = outerJoined \cup {a} /\ asyncAcc' = Merge(asyncAcc, avAcc[a])
          /\ UNCHANGED asyncRes
  /\ UNCHANGED <<svars, avState, avSpawnI, tstate, calls, reqs, ret, joined, avAcc, avRes, outerSpawnI, mvars>>

AsyncDone ==
  /\ AsyncLive /\ outerSpawnI > Len(AsyncOrder) /\ outerJoined = AV
  /\ asyncRes' = "ok"
  /\ UNCHANGED <<svars, avars, outerSpawnI, outerJoined, asyncAcc, mvars>>

----------------------------------------------------------------------------
(* main: validators::run + main.rs *)

\* sync_violations_handle.join()?  -- an Err returns at once, without waiting for T_async
MainJoinSync ==
  /\ Live /\ mainPc = "joinSync" /\ syncRes # "pending"
  /\ IF syncRes = "err" THEN final' = "error" /\ exit' = 1 /\ UNCHANGED mainPc
     ELSE mainPc' = "joinAsync" /\ UNCHANGED <<final, exit>>
  /\ UNCHANGED <<svars, avars, ovars, report>>

\* async_violations_handle.join()?; merge; process_violations; exit
MainJoinAsync ==
  /\ Live /\ mainPc = "joinAsync" /\ (asyncRes # "pending" \/ Len(AsyncOrder) = 0)
  /\ IF asyncRes = "err"
     THEN final' = "error" /\ exit' = 1 /\ UNCHANGED report
     ELSE /\ report' = Merge(syncAcc, asyncAcc)
          /\ final' = "report"
          /\ exit' = IF HasErrorSeverity(Merge(syncAcc, asyncAcc)) THEN 1 ELSE 0
  /\ UNCHANGED <<svars, avars, ovars, mainPc>>

Next ==
  \/ SpawnSync \/ JoinSync \/ SyncDone
  \/ \E v \in SV : \E r \in SyncOutcomes[v] : FinishSync(v, r)
  \/ SpawnAV \/ AsyncDone
  \/ \E a \in AV : SpawnTask(a) \/ EmptyAttrErr(a) \/ SpawnLoopDone(a) \/ AVDone(a) \/ OuterJoin(a)
                   \/ \E b \in BlocksSet(a) : JoinNext(a, b) \/ Send(a, b) \/ \E r \in TaskOutcomes[KindOf[a]] : Return(a, b, r)
  \/ \E b \in AllBlocks : Call(b)
  \/ MainJoinSync \/ MainJoinAsync

Spec == Init /\ [][Next]_vars /\ WF_vars(Next)

----------------------------------------------------------------------------
(* Properties *)

Finished == final # "pending"

\* C11 NoLostNoDup: the report is the multiset union of what every validator returned
SyncPart == LET RECURSIVE Fold(_, _)
                Fold(k, acc) == IF k > Len(SyncOrder) THEN acc
                                ELSE Fold(k + 1, IF result[SyncOrder[k]].st = "ok"
                                                 THEN Merge(acc, result[SyncOrder[k]].m) ELSE acc)
            IN Fold(1, Empty)
AsyncPart == LET bs == {b \in AllBlocks : IsDiagRet(ret[b])}
                 RECURSIVE Fold(_, _)
                 Fold(S, acc) == IF S = {} THEN acc
                                 ELSE LET b == CHOOSE x \in S : TRUE
                                          a == CHOOSE y \in AV : b \in BlocksSet(y)
                                      IN Fold(S \ {b}, Merge(acc, Single(FileOf[b], DiagOf(a, b, ret[b]))))
             IN Fold(bs, Empty)
NoLostNoDup == final = "report" => SameBag(report, Merge(SyncPart, AsyncPart))

\* C13 / C18 / C19: any error outcome anywhere fails the run -- it never ends in a report
AnyErr == \/ \E v \in SV : result[v].st = "err"
          \/ \E b \in AllBlocks : IsErrRet(ret[b])
          \/ \E a \in AV : avRes[a] = "err"
FailClosed == final = "report" => ~AnyErr
\* ... and a report is only produced when everything has run to completion
CompleteOnReport == final = "report" =>
                      /\ \A v \in SV : thr[v] = "finished"
                      /\ \A b \in AllBlocks : tstate[b] = "returned" /\ calls[b] = 1

\* C11 exit status
ExitIffError == Finished => (exit = 1 <=> (final = "error" \/ HasErrorSeverity(report)))
SilentWhenClean == final = "report" /\ NonEmptyFiles(report) = {} => exit = 0

\* C18 / C19: at most one call / request per block, ever; exactly one when the run succeeds;
\* without an API key nothing is sent (the call counter counts check_block entries, see AiTask note)
AtMostOnce == \A b \in AllBlocks : calls[b] <= 1 /\ reqs[b] <= 1
\* C19: one request per AI block on success, none at all without a key
OneRequest == /\ final = "report" => \A a \in AV : KindOf[a] = "ai" => \A b \in BlocksSet(a) : reqs[b] = 1
              /\ ~HasKey => \A b \in AllBlocks : reqs[b] = 0
\* C19: the reply decides -- OK => no diagnostic, other text => exactly one (OneDiagnosticPerString), fault => error
FaultFailsClosed == (\E b \in AllBlocks : ret[b].k \in {"fault", "nokey"}) => final # "report"
ExactlyOnceOnSuccess == final = "report" => \A b \in AllBlocks : calls[b] = 1
OneDiagnosticPerString ==
  final = "report" => \A a \in AV : \A b \in BlocksSet(a) :
     LET mine == {k \in 1..Len(Get(report, FileOf[b])) :
                    Get(report, FileOf[b])[k].v = a /\ Get(report, FileOf[b])[k].b = b}
     IN IF IsDiagRet(ret[b])
        THEN Cardinality(mine) = 1 /\ \A k \in mine : Get(report, FileOf[b])[k] = DiagOf(a, b, ret[b])
        ELSE mine = {}

\* C20: the observable outcome is a function of what the validators returned, not of the schedule
Deterministic ==
  Finished => /\ (final = "error" <=> AnyErr)
              /\ (final = "report" => SameBag(report, Merge(SyncPart, AsyncPart)))

TypeOK == /\ final \in {"pending", "report", "error"} /\ exit \in {-1, 0, 1}
          /\ mainPc \in {"joinSync", "joinAsync"}

Terminates == <>Finished
=============================================================================
