------------------------------ MODULE Blockwatch ------------------------------
(***************************************************************************)
(* The run as a whole: the stages of main.rs in order, each of which may   *)
(* end the run.  The stage modules (Flags, DiffText/DiffTouch, Scope,      *)
(* Grammar, Pairing, Detect, Run) say WHAT each stage computes; this       *)
(* module says how they compose:                                           *)
(*   - stages happen in one order and none is skipped;                     *)
(*   - a failing stage ends the run at once (nothing of a later stage      *)
(*     happens): rejected flags before anything is read (C14), an          *)
(*     unacceptable diff, an unreadable or unbalanced file in scope (C12), *)
(*     a malformed rule or failing validator (C13);                        *)
(*   - validators are detected and run only after EVERY file in scope has  *)
(*     been parsed;                                                        *)
(*   - the only endings are: rejected (exit 1|2), error (exit 1), listing  *)
(*     (exit 0), report (exit 1 iff an error-severity diagnostic) -- there *)
(*     is no crash state (C04, C11).                                       *)
(* TraceSystem.tla validates the complete hook trace of a real run against *)
(* it, whatever property the run was made for.                             *)
(***************************************************************************)
EXTENDS Integers, Sequences, FiniteSets, TLC

CONSTANTS MaxFiles

VARIABLES stage,     \* "flags" | "diff" | "scope" | "branch" | "detect" | "run" | "print" | "end"
          ending,    \* "none" | "rejected" | "error" | "listed" | "report"
          listMode, hasDiff,
          toParse,   \* files in scope still to be parsed
          parsed,    \* files parsed without error
          diags,     \* number of diagnostics, hasError
          hasError,
          exit

vars == <<stage, ending, listMode, hasDiff, toParse, parsed, diags, hasError, exit>>

Init == /\ stage = "flags" /\ ending = "none" /\ listMode \in BOOLEAN /\ hasDiff \in BOOLEAN
        /\ toParse \in 0..MaxFiles /\ parsed = 0 /\ diags = 0 /\ hasError = FALSE /\ exit = -1

End(e, x) == ending' = e /\ exit' = x /\ stage' = "end"
Keep == UNCHANGED <<listMode, hasDiff>>

FlagsOk     == stage = "flags" /\ stage' = (IF hasDiff THEN "diff" ELSE "scope") /\ Keep /\ UNCHANGED <<ending, toParse, parsed, diags, hasError, exit>>
FlagsReject == stage = "flags" /\ (\E x \in {1, 2} : End("rejected", x)) /\ Keep /\ UNCHANGED <<toParse, parsed, diags, hasError>>
DiffOk      == stage = "diff" /\ stage' = "scope" /\ Keep /\ UNCHANGED <<ending, toParse, parsed, diags, hasError, exit>>
DiffErr     == stage = "diff" /\ End("error", 1) /\ Keep /\ UNCHANGED <<toParse, parsed, diags, hasError>>
ParseOk     == stage = "scope" /\ toParse > 0 /\ toParse' = toParse - 1 /\ parsed' = parsed + 1
               /\ Keep /\ UNCHANGED <<stage, ending, diags, hasError, exit>>
ParseErr    == stage = "scope" /\ toParse > 0 /\ End("error", 1) /\ Keep /\ UNCHANGED <<toParse, parsed, diags, hasError>>
ScopeDone   == stage = "scope" /\ toParse = 0 /\ stage' = "branch" /\ Keep /\ UNCHANGED <<ending, toParse, parsed, diags, hasError, exit>>
List        == stage = "branch" /\ listMode /\ End("listed", 0) /\ Keep /\ UNCHANGED <<toParse, parsed, diags, hasError>>
ToDetect    == stage = "branch" /\ ~listMode /\ stage' = "detect" /\ Keep /\ UNCHANGED <<ending, toParse, parsed, diags, hasError, exit>>
DetectOk    == stage = "detect" /\ stage' = "run" /\ Keep /\ UNCHANGED <<ending, toParse, parsed, diags, hasError, exit>>
DetectErr   == stage = "detect" /\ End("error", 1) /\ Keep /\ UNCHANGED <<toParse, parsed, diags, hasError>>
RunOk       == stage = "run" /\ stage' = "print" /\ (\E n \in 0..2, e \in BOOLEAN : diags' = n /\ hasError' = (e /\ n > 0))
               /\ Keep /\ UNCHANGED <<ending, toParse, parsed, exit>>
RunErr      == stage = "run" /\ End("error", 1) /\ Keep /\ UNCHANGED <<toParse, parsed, diags, hasError>>
PrintReport == stage = "print" /\ End("report", IF hasError THEN 1 ELSE 0) /\ Keep /\ UNCHANGED <<toParse, parsed, diags, hasError>>

Next == FlagsOk \/ FlagsReject \/ DiffOk \/ DiffErr \/ ParseOk \/ ParseErr \/ ScopeDone \/ List \/ ToDetect
        \/ DetectOk \/ DetectErr \/ RunOk \/ RunErr \/ PrintReport
Spec == Init /\ [][Next]_vars /\ WF_vars(Next)

Finished == stage = "end"
TypeOK == /\ stage \in {"flags", "diff", "scope", "branch", "detect", "run", "print", "end"}
          /\ ending \in {"none", "rejected", "error", "listed", "report"}
OnlyFourEndings == Finished => ending # "none"
ExitFollowsEnding == Finished => CASE ending = "rejected" -> exit \in {1, 2}
                                   [] ending = "error"    -> exit = 1
                                   [] ending = "listed"   -> exit = 0
                                   [] ending = "report"   -> exit = (IF hasError THEN 1 ELSE 0)
ValidateAfterAllParsed == stage \in {"detect", "run", "print"} \/ ending \in {"listed", "report"} => toParse = 0
NothingAfterFailure == ending \in {"rejected", "error"} => diags = 0
Terminates == <>Finished
=============================================================================
