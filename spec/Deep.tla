--------------------------------- MODULE Deep ---------------------------------
(***************************************************************************)
(* C04, second generator: size and depth.  Soup.tla enumerates short       *)
(* hostile token sequences; this module enumerates (construct, depth)      *)
(* pairs: one syntactic construct nested or chained `depth` times, followed*)
(* by an ordinary block.  The harness renders each pair in a language that *)
(* has the construct and runs the real process in scan, list and diff mode.*)
(* Contract (same as Soup): the only terminal states are report and error. *)
(*                                                                         *)
(* Implementation-shaped part: how each construct consumes resources.      *)
(*   - "tree" constructs (operator chains, brackets, nested markup) only   *)
(*     deepen the syntax tree; the comment walk is iterative (an explicit  *)
(*     cursor, src/language_parsers/mod.rs CommentsIterator), so depth     *)
(*     costs heap, not stack: AsCoded = contract.                          *)
(*   - "scanner" constructs are tracked by the grammar's external scanner  *)
(*     with one stack entry per level; tree-sitter serialises that stack   *)
(*     into a fixed 1024-byte buffer after every token and asserts that it *)
(*     fits (lib/src/parser.c ts_parser__external_scanner_serialize).      *)
(*     The YAML and Markdown scanners use 4 bytes per level plus a header  *)
(*     and do not bound their stack, so from ScannerLimit levels on the    *)
(*     process aborts (named deviation DP1, switch FixDP1).  The other     *)
(*     scanners (Python indents, HTML tags, heredocs, raw strings,         *)
(*     templates) truncate their state to the buffer.                      *)
(***************************************************************************)
EXTENDS Integers, FiniteSets, TLC, Json

CONSTANTS Depths,        \* set of depths to explore
          ScannerLimit,  \* function: unbounded-scanner construct -> first depth at which its stack no longer fits 1024 bytes
          FixDP1         \* TRUE: model with the deviation repaired

TreeConstructs == {"chain", "brackets", "markup", "tagnest", "longline", "longcomment", "manycomments"}
BoundedScanner == {"py_indent", "html_tags", "jsx_tags", "heredoc_sh", "heredoc_rb", "rawstr_rs", "rawstr_cpp", "template_js",
                   "interp_kt", "interp_swift", "interp_cs", "css_nest", "toml_table", "yaml_flow"}
UnboundedScanner == {"yaml_map", "md_quote", "md_list"}
Constructs == TreeConstructs \cup BoundedScanner \cup UnboundedScanner

VARIABLES construct, depth, outcome
vars == <<construct, depth, outcome>>

Init == construct \in Constructs /\ depth \in Depths /\ outcome = "pending"

\* the run as coded
AbortsAsCoded(c, d) == ~FixDP1 /\ c \in UnboundedScanner /\ d >= ScannerLimit[c]
RunOK    == outcome = "pending" /\ ~AbortsAsCoded(construct, depth) /\ outcome' \in {"report", "error"} /\ UNCHANGED <<construct, depth>>
\* deviation DP1: the scanner's serialised state exceeds tree-sitter's buffer, the C assertion aborts the process
ScannerAbort == outcome = "pending" /\ AbortsAsCoded(construct, depth) /\ outcome' = "abort" /\ UNCHANGED <<construct, depth>>
Next == RunOK \/ ScannerAbort
Spec == Init /\ [][Next]_vars

NoCrashState == outcome \in {"pending", "report", "error"}        \* the contract; violated as coded iff ~FixDP1 (finding DP1)
\* the deviation is confined: nothing but an unbounded scanner stack at or above the limit may abort
DeviationConfined == outcome = "abort" => construct \in UnboundedScanner /\ depth >= ScannerLimit[construct]
Emit == outcome # "pending" =>
          PrintT(<<"CASE", ToJson([construct |-> construct, depth |-> depth, ascoded |-> outcome,
                                   contract |-> "report_or_error"])>>)
=============================================================================
