----------------------------- MODULE DiffTouch -----------------------------
(***************************************************************************)
(* Drift detection core (C01, C02): from a git diff to the two "touched"   *)
(* flags of every block.                                                   *)
(*                                                                         *)
(*   edit script --Build--> typed diff lines --DiffWalk--> LineChange list *)
(*               --Touch--> tag_modified / content_modified --> selected   *)
(*                                                                         *)
(* DiffWalk is implementation-shaped: one action per iteration of the loop *)
(* in src/diff_parser.rs `line_changes` (StepRemoved, StepAdded, StepSep). *)
(* The known deviations of the code from the contract are named and        *)
(* switchable:                                                             *)
(*   DV1  a deletion-only group is recorded at the OLD-file line number    *)
(*        (`fold_deleted_lines` uses source_line_no);                      *)
(*   DV2  removed lines left over after the positional -/+ pairing vanish  *)
(*        (`deleted_lines.clear()` when the previous line was added);      *)
(*   F1   the block x LineChange test used a binary search with a          *)
(*        non-monotone comparator (repaired in /repo: FixF1 = TRUE).       *)
(* The contract (MUST / MUSTNOT / gray) is stated over the edit script,    *)
(* not over the diff walk.                                                 *)
(*                                                                         *)
(* Abstraction: a file is a sequence of lines; an edit script is a         *)
(* sequence of ops K(eep) D(elete) I(nsert) M(odify).  M occurs only on    *)
(* tag lines and carries a character-level kind; code lines are rewritten  *)
(* by D+I.  N / n keep the text of the file's last line and change only    *)
(* its terminator (N: the old file ended without a line terminator, n: the *)
(* new one does); git prints the line as a -/+ pair of identical text with *)
(* the marker "\ No newline at end of file" after the side that lacks it.  *)
(* Every line's text is unique, so git's diff is the script in             *)
(* git-normal form (inside a change group: all "-" then all "+").          *)
(* Columns are the 0-based character columns of fixed comment layouts.     *)
(***************************************************************************)
EXTENDS Integers, Sequences, FiniteSets, TLC, Json

CONSTANTS GenSparse,     \* generation mode only: TRUE = edits only at every fourth position (far-apart changes)
          GenLen,        \* 0: Init enumerates every script (exhaustive mode); n > 0: scripts of n ops are grown step
                         \* by step (GenOp, GenPlace) so that `tlc -simulate` draws long random scripts
          FixU1,         \* TRUE = character ranges converted to byte columns (repaired), FALSE = compared as they are
          MaxOps,        \* maximal length of the edit script
          MaxBlocks,     \* 1 or 2 blocks per file
          Layouts,       \* subset of {"line", "inline", "cont"}
          FixF1, FixDV1, FixDV2   \* TRUE = the repaired action, FALSE = the code as it is/was

VARIABLES ops,       \* edit script: sequence over {"K","D","I","M"}
          blocks,    \* sequence of block records [ps, pe, ks, ke, lay]
          dl,        \* typed diff lines built from ops (constant after Init)
          i,         \* cursor into dl
          q,         \* deleted_lines queue
          prevAdded, \* prev_line.is_added()
          lastTgt,   \* target line number of the last added line seen (for the repaired DV2 action)
          changes,   \* the LineChange list being built
          pc         \* "walk" | "done"

vars == <<ops, blocks, dl, i, q, prevAdded, lastTgt, changes, pc>>

----------------------------------------------------------------------------
(* Line numbers *)
OldNo(o, k) == Cardinality({j \in 1..k : o[j] \in {"K", "D", "M", "N", "n"}})
NewNo(o, k) == Cardinality({j \in 1..k : o[j] \in {"K", "I", "M", "N", "n"}})
MakesNew(x) == x \in {"K", "I", "M", "N", "n"}
Unchanged(x) == x \in {"K", "N", "n"}        \* the line's text is the same in both files
\* N is the last line of the OLD file (only insertions may follow), n the last line of the NEW file (only deletions)
TermOK(o) == /\ Cardinality({k \in 1..Len(o) : o[k] \in {"N", "n"}}) <= 1
             /\ \A k \in 1..Len(o) : (o[k] = "N" => \A j \in (k + 1)..Len(o) : o[j] = "I")
                                     /\ (o[k] = "n" => \A j \in (k + 1)..Len(o) : o[j] = "D")

(* Comment layouts.  0-based character columns on the tag's line:
     tag   = [tc0, tc1]  columns of '<' and '>' of the start tag
     cend  = exclusive end column of the start-tag comment on its LAST line
     cbeg  = column where the end-tag comment starts on its FIRST line
   "line"   // nn <block ..> mm        |  // </block> mm
   "inline" /* nn <block ..> mm */ 77  |  88 /* </block> mm */
   "cont"   /* nn <block ..> mm        |  /* mm
               more mm */              |     </block> mm */                     *)
Lay(l) == CASE l = "line"   -> [tc0 |-> 6, tc1 |-> 46, cend |-> 50, cbeg |-> 0, slines |-> 1, elines |-> 1, len |-> 50, elen |-> 14]
            [] l = "inline" -> [tc0 |-> 6, tc1 |-> 46, cend |-> 53, cbeg |-> 5, slines |-> 1, elines |-> 1, len |-> 58, elen |-> 22]
            [] l = "cont"   -> [tc0 |-> 6, tc1 |-> 46, cend |-> 13, cbeg |-> 0, slines |-> 2, elines |-> 2, len |-> 50, elen |-> 17]
            \* "mb": the "line" layout with 24 two-byte characters before the tag: CHARACTER columns below, the
            \* tag's BYTE columns are 24 larger (mb); the character diff reports character indices
            [] l = "mb"     -> [tc0 |-> 28, tc1 |-> 68, cend |-> 72, cbeg |-> 0, slines |-> 1, elines |-> 1, len |-> 72, elen |-> 14]
            \* "mltag": the start tag itself spans two lines; tc1 is the column of '>' on the SECOND line
            [] l = "mltag"  -> [tc0 |-> 6, tc1 |-> 25, cend |-> 32, cbeg |-> 0, slines |-> 2, elines |-> 1, len |-> 28, elen |-> 17]
CodeLen == 6

MbOf(l) == IF l = "mb" THEN 24 ELSE 0     \* extra bytes before the tag on the start-tag line

(* Character ranges (0-based, half-open) produced by the character diff for each M kind.
   Edits sit >= 2 characters inside their region so that region edges stay out of the picture. *)
Rng(kind, l) ==
  CASE kind = "attr"   -> <<Lay(l).tc0 + 20, Lay(l).tc0 + 21>>   \* inside the start tag
    [] kind = "cmtB"   -> <<3, 4>>                           \* comment text before the tag
    [] kind = "cmtA"   -> <<Lay(l).tc1 + 2, Lay(l).tc1 + 3>>     \* comment text after the tag
    [] kind = "post"   -> <<Lay(l).cend + 2, Lay(l).cend + 3>>   \* content after the start comment, same line
    [] kind = "endcmt" -> <<Lay(l).cbeg + 12, Lay(l).cbeg + 13>> \* inside the end-tag comment
    [] kind = "pre"    -> <<1, 2>>                           \* content before the end comment, same line
    [] kind = "attr2"  -> <<5, 6>>                           \* attribute on the tag's second line, left of the '<' column
    [] kind = "cmtA2"  -> <<27, 28>>                         \* comment text after '>' on the tag's second line
    [] kind = "full"   -> <<0, l>>                           \* unrelated old text: everything replaced (l = new length)

KindsS(l) == IF l = "mltag" THEN {"attr", "cmtB", "full"}
             ELSE IF l = "mb" THEN {"attr", "cmtA", "full"}
             ELSE {"attr", "cmtB", "cmtA", "full"} \cup (IF l = "inline" THEN {"post"} ELSE {})
KindsC(l) == IF l = "mltag" THEN {"attr2", "cmtA2"} ELSE {}
KindsE(l) == {"endcmt", "full"} \cup (IF l = "inline" THEN {"pre"} ELSE {})

\* op indices of the first/last line of the start-tag comment and of the end-tag comment
SFirst(b) == b.ps
SLast(b)  == b.ps + Lay(b.lay).slines - 1
EFirst(b) == b.pe - Lay(b.lay).elines + 1
ELast(b)  == b.pe

TagLines(bs) == UNION {{SFirst(bs[n]), ELast(bs[n])} \cup (IF bs[n].lay = "mltag" THEN {bs[n].ps + 1} ELSE {}) : n \in 1..Len(bs)}
CmtLines(bs) == UNION {SFirst(bs[n])..SLast(bs[n]) \cup EFirst(bs[n])..ELast(bs[n]) : n \in 1..Len(bs)}

----------------------------------------------------------------------------
(* Build: edit script -> typed diff lines (git-normal form), one "sep" after every change group
   (a context line and a hunk end are the same event for the walk).                           *)
Sep == [t |-> "sep", src |-> 0, tgt |-> 0, op |-> 0]
Marker == [t |-> "other", src |-> 0, tgt |-> 0, op |-> 0]      \* "\ No newline at end of file"
Flush(minus, plus) == IF minus = <<>> /\ plus = <<>> THEN <<>> ELSE minus \o plus \o <<Sep>>

RECURSIVE BuildFrom(_, _, _, _)
BuildFrom(o, k, minus, plus) ==
  IF k > Len(o) THEN Flush(minus, plus)
  ELSE IF o[k] = "K" THEN Flush(minus, plus) \o BuildFrom(o, k + 1, <<>>, <<>>)
  ELSE LET m1 == IF o[k] \in {"D", "M", "N", "n"}
                 THEN Append(minus, [t |-> "-", src |-> OldNo(o, k), tgt |-> NewNo(o, k - 1) + 1, op |-> k])
                 ELSE minus
           m2 == IF o[k] = "N" THEN Append(m1, Marker) ELSE m1
           p1 == IF o[k] \in {"I", "M", "N", "n"}
                 THEN Append(plus, [t |-> "+", src |-> 0, tgt |-> NewNo(o, k), op |-> k])
                 ELSE plus
           \* n: git prints the marker after the "+" line, which is the last line of its hunk; the unidiff parser has
           \* then already closed the hunk (all announced lines read) and drops the marker: the walk never sees it
           p2 == p1
       IN BuildFrom(o, k + 1, m2, p2)
Build(o) == BuildFrom(o, 1, <<>>, <<>>)

\* kind of the M op at script index k
KindOfOp(bs, k) ==
  LET S == {n \in 1..Len(bs) : bs[n].ps = k}
      E == {n \in 1..Len(bs) : bs[n].pe = k}
      C == {n \in 1..Len(bs) : bs[n].lay = "mltag" /\ bs[n].ps + 1 = k}
  IN IF S # {} THEN [kind |-> bs[CHOOSE n \in S : TRUE].ks, lay |-> bs[CHOOSE n \in S : TRUE].lay]
     ELSE IF C # {} THEN [kind |-> bs[CHOOSE n \in C : TRUE].kc, lay |-> "mltag"]
     ELSE [kind |-> bs[CHOOSE n \in E : TRUE].ke, lay |-> bs[CHOOSE n \in E : TRUE].lay]

\* length of the new line produced by op k
NewLen(bs, k) ==
  LET S == {n \in 1..Len(bs) : bs[n].ps = k}
      E == {n \in 1..Len(bs) : bs[n].pe = k}
      C == {n \in 1..Len(bs) : k \in (SFirst(bs[n]) + 1)..SLast(bs[n])}
      D == {n \in 1..Len(bs) : k \in EFirst(bs[n])..(ELast(bs[n]) - 1)}
  IN IF S # {} THEN Lay(bs[CHOOSE n \in S : TRUE].lay).len
     ELSE IF E # {} THEN Lay(bs[CHOOSE n \in E : TRUE].lay).elen
     ELSE IF C # {} THEN (IF bs[CHOOSE n \in C : TRUE].lay = "mltag" THEN 32 ELSE 13)
     ELSE IF D # {} THEN 5
     ELSE CodeLen

\* character ranges of the pair (removed line of op a, added line of op k)
\* (a terminator-only pair has identical text: line_diff returns no range at all, written <<0, 0>>, which hits nothing)
PairRng(bs, a, k) == IF a = k THEN (IF ops[k] \in {"N", "n"} THEN <<0, 0>>
                                   ELSE LET ko == KindOfOp(bs, k) IN
                                        IF ko.kind = "full" THEN <<0, NewLen(bs, k)>> ELSE Rng(ko.kind, ko.lay))
                     ELSE <<0, NewLen(bs, k)>>      \* positional pairing of unrelated lines

----------------------------------------------------------------------------
(* Init: every edit script and block placement within the bounds *)

\* two blocks: siblings or properly nested, sharing no comment line
Compatible(b1, b2) ==
  /\ b1.ps < b2.ps
  /\ (SFirst(b1)..SLast(b1) \cup EFirst(b1)..ELast(b1)) \cap (SFirst(b2)..SLast(b2) \cup EFirst(b2)..ELast(b2)) = {}
  /\ \/ ELast(b1) < SFirst(b2)                                   \* siblings
     \/ (SLast(b1) < SFirst(b2) /\ ELast(b2) < EFirst(b1))       \* b2 nested in b1

Placements(o) == {p \in [ps : 1..Len(o), pe : 1..Len(o), lay : Layouts] :
                     LET b == [ps |-> p.ps, pe |-> p.pe, lay |-> p.lay, ks |-> "-", ke |-> "-", kc |-> "-"] IN
                     /\ b.ps < b.pe /\ SLast(b) < EFirst(b) /\ ELast(b) <= Len(o) /\ EFirst(b) >= 1
                     /\ \A k \in SFirst(b)..SLast(b) \cup EFirst(b)..ELast(b) : MakesNew(o[k])
                     /\ \A k \in (SFirst(b) + 1)..SLast(b) \cup EFirst(b)..(ELast(b) - 1) : o[k] = "M" => p.lay = "mltag"}
WithKinds(o, p) == {[ps |-> p.ps, pe |-> p.pe, lay |-> p.lay, ks |-> x, ke |-> y, kc |-> z] :
                      x \in (IF o[p.ps] = "M" THEN KindsS(p.lay) ELSE {"-"}),
                      y \in (IF o[p.pe] = "M" THEN KindsE(p.lay) ELSE {"-"}),
                      z \in (IF p.lay = "mltag" /\ o[p.ps + 1] = "M" THEN KindsC(p.lay) ELSE {"-"})}
Candidates(o) == UNION {WithKinds(o, p) : p \in Placements(o)}

\* ---- generation mode (simulation of long scripts) ----
GenInit == /\ ops = <<>> /\ blocks = <<>> /\ dl = <<>>
           /\ i = 1 /\ q = <<>> /\ prevAdded = FALSE /\ lastTgt = 0 /\ changes = <<>> /\ pc = "gen"
GenOp == /\ pc = "gen" /\ Len(ops) < GenLen
         /\ \E x \in (IF GenSparse /\ Len(ops) % 4 # 2 THEN {"K"} ELSE {"K", "D", "I"}) : ops' = Append(ops, x)
         /\ UNCHANGED <<blocks, dl, i, q, prevAdded, lastTgt, changes, pc>>
\* place one or two blocks on lines the script keeps or inserts; some kept tag lines become M ops with a kind
GenPlace ==
  /\ pc = "gen" /\ Len(ops) = GenLen /\ \E k \in 1..Len(ops) : ops[k] # "K"
  /\ \E p \in Placements(ops) : \E ms \in SUBSET ({p.ps, p.pe} \cup (IF p.lay = "mltag" THEN {p.ps + 1} ELSE {})) :
       LET o2 == [k \in 1..Len(ops) |-> IF k \in ms /\ ops[k] = "K" THEN "M" ELSE ops[k]] IN
       /\ ops' = o2
       /\ \E b \in WithKinds(o2, p) :
             \/ blocks' = <<b>>
             \/ (MaxBlocks >= 2 /\ \E b2 \in {x \in Candidates(o2) : Compatible(b, x)} : blocks' = <<b, b2>>)
       /\ dl' = Build(o2)
  /\ pc' = "walk" /\ UNCHANGED <<i, q, prevAdded, lastTgt, changes>>

Init ==
  IF GenLen > 0 THEN GenInit ELSE
  /\ ops \in UNION {[1..n -> {"K", "D", "I", "M", "N", "n"}] : n \in 2..MaxOps}
  /\ TermOK(ops)
  /\ LET W == Candidates(ops) IN
     blocks \in {<<b>> : b \in W}
            \cup (IF MaxBlocks >= 2
                  THEN UNION {{<<b1, b2>> : b2 \in {x \in W : Compatible(b1, x)}} : b1 \in W}
                  ELSE {})
  /\ \A k \in 1..Len(ops) : ops[k] = "M" => k \in TagLines(blocks)      \* M only on tag lines
  /\ \E k \in 1..Len(ops) : ops[k] # "K"                                \* a non-empty diff
  /\ NewNo(ops, Len(ops)) > 0
  /\ dl = Build(ops)
  /\ i = 1 /\ q = <<>> /\ prevAdded = FALSE /\ lastTgt = 0 /\ changes = <<>> /\ pc = "walk"

----------------------------------------------------------------------------
(* DiffWalk: src/diff_parser.rs `line_changes` *)

Whole(n)      == [line |-> n, whole |-> TRUE,  r0 |-> 0, r1 |-> 0]
Ranged(n, rr) == [line |-> n, whole |-> FALSE, r0 |-> rr[1], r1 |-> rr[2]]

\* `if line.is_removed() { deleted_lines.push_back(line) }`
StepRemoved ==
  /\ pc = "walk" /\ i <= Len(dl) /\ dl[i].t = "-"
  /\ q' = Append(q, dl[i]) /\ prevAdded' = FALSE
  /\ i' = i + 1 /\ UNCHANGED <<ops, blocks, dl, lastTgt, changes, pc>>

\* `if line.is_added() { pop_front -> modified line with ranges | new line }`
StepAdded ==
  /\ pc = "walk" /\ i <= Len(dl) /\ dl[i].t = "+"
  /\ IF q # <<>>
     THEN /\ changes' = Append(changes, Ranged(dl[i].tgt, PairRng(blocks, Head(q).op, dl[i].op)))
          /\ q' = Tail(q)
     ELSE /\ changes' = Append(changes, Whole(dl[i].tgt))
          /\ q' = q
  /\ prevAdded' = TRUE /\ lastTgt' = dl[i].tgt
  /\ i' = i + 1 /\ UNCHANGED <<ops, blocks, dl, pc>>

\* `clear_or_fold_deleted_lines` at a context line or at the end of a hunk
\*    deviation DV2 ClearLeftoverDeleted, deviation DV1 FoldDeletedAtSourceLine
StepSep ==
  /\ pc = "walk" /\ i <= Len(dl) /\ dl[i].t = "sep"
  /\ changes' = IF q = <<>> THEN changes
                ELSE IF prevAdded
                     THEN (IF FixDV2 THEN Append(changes, Whole(lastTgt + 1)) ELSE changes)
                     ELSE Append(changes, Whole(IF FixDV1 THEN Head(q).tgt ELSE Head(q).src))
  /\ q' = <<>> /\ prevAdded' = FALSE
  /\ i' = i + 1 /\ UNCHANGED <<ops, blocks, dl, lastTgt, pc>>

\* a "\\ No newline at end of file" marker: neither added, removed nor context -- it only becomes prev_line
StepOther ==
  /\ pc = "walk" /\ i <= Len(dl) /\ dl[i].t = "other"
  /\ prevAdded' = FALSE
  /\ i' = i + 1 /\ UNCHANGED <<ops, blocks, dl, q, lastTgt, changes, pc>>

WalkDone ==
  /\ pc = "walk" /\ i > Len(dl)
  /\ pc' = "done" /\ UNCHANGED <<ops, blocks, dl, i, q, prevAdded, lastTgt, changes>>

Next == GenOp \/ GenPlace \/ StepRemoved \/ StepAdded \/ StepSep \/ StepOther \/ WalkDone

Spec == Init /\ [][Next]_vars /\ WF_vars(Next)

----------------------------------------------------------------------------
(* The same walk as one recursive operator with the repairs as arguments, so that one behaviour
   can be judged under every combination of repairs (attribution of a failure to DV1 / DV2).   *)
RECURSIVE WalkAll(_, _, _, _, _, _, _, _)
WalkAll(d, bs, k, qq, pa, lt, f1, f2) ==
  IF k > Len(d) THEN <<>>
  ELSE CASE d[k].t = "-" -> WalkAll(d, bs, k + 1, Append(qq, d[k]), FALSE, lt, f1, f2)
         [] d[k].t = "+" ->
              IF qq # <<>>
              THEN <<Ranged(d[k].tgt, PairRng(bs, Head(qq).op, d[k].op))>>
                   \o WalkAll(d, bs, k + 1, Tail(qq), TRUE, d[k].tgt, f1, f2)
              ELSE <<Whole(d[k].tgt)>> \o WalkAll(d, bs, k + 1, qq, TRUE, d[k].tgt, f1, f2)
         [] d[k].t = "other" -> WalkAll(d, bs, k + 1, qq, FALSE, lt, f1, f2)
         [] d[k].t = "sep" ->
              (IF qq = <<>> THEN <<>>
               ELSE IF pa THEN (IF f2 THEN <<Whole(lt + 1)>> ELSE <<>>)
               ELSE <<Whole(IF f1 THEN Head(qq).tgt ELSE Head(qq).src)>>)
              \o WalkAll(d, bs, k + 1, <<>>, FALSE, lt, f1, f2)
Walk(d, bs, f1, f2) == WalkAll(d, bs, 1, <<>>, FALSE, 0, f1, f2)

----------------------------------------------------------------------------
(* Touch: src/blocks.rs.  Positions are 1-based (line, character) like the code's. *)

Geo(o, b) ==
  LET L == Lay(b.lay) IN
  \* columns are BYTE columns (tree-sitter): the multi-byte prefix of layout "mb" shifts them by MbOf
  [tag0l |-> NewNo(o, b.ps), tag0c |-> L.tc0 + 1 + MbOf(b.lay),
   tag1l |-> IF b.lay = "mltag" THEN NewNo(o, b.ps + 1) ELSE NewNo(o, b.ps), tag1c |-> L.tc1 + 1 + MbOf(b.lay),
   cs_l  |-> NewNo(o, SLast(b)),  cs_c |-> L.cend + 1 + MbOf(b.lay), mb |-> MbOf(b.lay),
   ce_l  |-> NewNo(o, EFirst(b)), ce_c |-> L.cbeg + 1]

BIG == 1000000
\* a character index of the start-tag line of an "mb" block as a byte index: the 24 two-byte characters
\* occupy character columns 3..26.  The first coding compared character indices with byte columns
\* (deviation U1); the repaired line_diff converts.
Conv(g, c, r, u1) == IF u1 /\ g.mb > 0 /\ c.line = g.tag0l
                 THEN (IF r <= 3 THEN r ELSE IF r >= 27 THEN r + g.mb ELSE 3 + 2 * (r - 3))
                 ELSE r
\* intersects_with_line_change (half-open content range)
HitsContent(g, c, u1) ==
  /\ c.line >= g.cs_l /\ c.line <= g.ce_l
  /\ \/ c.whole
     \/ LET sc == IF c.line = g.cs_l THEN g.cs_c - 1 ELSE 0
            ec == IF c.line < g.ce_l THEN BIG ELSE g.ce_c - 1
        IN Conv(g, c, c.r1, u1) > sc /\ Conv(g, c, c.r0, u1) < ec
\* intersects_with_line_change_inclusive (closed tag range)
HitsTag(g, c, u1) ==
  /\ c.line >= g.tag0l /\ c.line <= g.tag1l
  /\ \/ c.whole
     \/ LET sc == IF c.line = g.tag0l THEN g.tag0c - 1 ELSE 0
            ec == IF c.line < g.tag1l THEN BIG ELSE g.tag1c - 1
        IN Conv(g, c, c.r1, u1) > sc /\ Conv(g, c, c.r0, u1) <= ec

\* core::slice::binary_search_by with the comparator of the unrepaired code (F1), over the
\* sequence of comparator outcomes
RECURSIVE BS(_, _, _)
BS(cm, base, size) ==
  IF size > 1
  THEN LET half == size \div 2
           mid  == base + half
       IN BS(cm, IF cm[mid + 1] = "GT" THEN base ELSE mid, size - half)
  ELSE cm[base + 1] = "EQ"

AnyHit(hits, lines, startLine, linear) ==     \* hits[k]: does change k intersect; lines[k]: its line
  IF linear THEN \E k \in 1..Len(hits) : hits[k]
  ELSE /\ Len(hits) > 0
       /\ BS([k \in 1..Len(hits) |-> IF hits[k] THEN "EQ" ELSE IF lines[k] < startLine THEN "LT" ELSE "GT"],
             0, Len(hits))

ContentModified(o, b, cs, linear, u1) ==
  LET g == Geo(o, b) IN AnyHit([k \in 1..Len(cs) |-> HitsContent(g, cs[k], u1)], [k \in 1..Len(cs) |-> cs[k].line], g.cs_l, linear)
TagModified(o, b, cs, linear, u1) ==
  LET g == Geo(o, b) IN AnyHit([k \in 1..Len(cs) |-> HitsTag(g, cs[k], u1)], [k \in 1..Len(cs) |-> cs[k].line], g.tag0l, linear)


----------------------------------------------------------------------------
(* Contract, over the edit script *)

\* op k edits/adds/removes a line lying strictly between the two tag comments
Between(b, k) == SLast(b) < k /\ k < EFirst(b)
Far(b, k)     == k < SFirst(b) - 1 \/ k > ELast(b) + 1

\* a change group that mixes a tag-line rewrite with other ops defeats the "M" reading of the pair
\* (git shows  -old tag, -x, +new tag): only groups made of the single M op count as a character edit
Alone(o, k) == (k = 1 \/ o[k - 1] = "K") /\ (k = Len(o) \/ o[k + 1] = "K")

MustContent(o, b) ==
  \/ \E k \in 1..Len(o) : ~Unchanged(o[k]) /\ Between(b, k)
  \/ (o[b.ps] = "M" /\ b.ks = "post" /\ Alone(o, b.ps))
  \/ (o[b.pe] = "M" /\ b.ke = "pre" /\ Alone(o, b.pe))

\* an op that, by the statement, neither selects the block nor changes its content
Harmless(o, b, k) ==
  \/ Unchanged(o[k])
  \/ Far(b, k)
  \/ (k = b.ps /\ o[k] = "M" /\ b.ks \in {"cmtB", "cmtA"})
  \/ (k = b.pe /\ o[k] = "M" /\ b.ke = "endcmt")
  \/ (b.lay = "mltag" /\ k = b.ps + 1 /\ o[k] = "M" /\ b.kc = "cmtA2")
AttrOnly(o, b, k) == \/ (k = b.ps /\ o[k] = "M" /\ b.ks = "attr")
                     \/ (b.lay = "mltag" /\ k = b.ps + 1 /\ o[k] = "M" /\ b.kc = "attr2")

CleanM(o, b) == /\ (o[b.ps] = "M" => Alone(o, b.ps))
                /\ (o[b.pe] = "M" => Alone(o, b.pe))
                /\ (b.lay = "mltag" /\ o[b.ps + 1] = "M" => Alone(o, b.ps + 1))

MustNotContent(o, b) == /\ ~MustContent(o, b)
                        /\ CleanM(o, b)
                        /\ \A k \in 1..Len(o) : Harmless(o, b, k) \/ AttrOnly(o, b, k)
MustSelect(o, b)     == \/ MustContent(o, b)
                        \/ (o[b.ps] = "M" /\ b.ks = "attr" /\ Alone(o, b.ps))
                        \/ (b.lay = "mltag" /\ o[b.ps + 1] = "M" /\ b.kc = "attr2" /\ Alone(o, b.ps + 1))
MustNotSelect(o, b)  == /\ ~MustSelect(o, b)
                        /\ CleanM(o, b)
                        /\ \A k \in 1..Len(o) : Harmless(o, b, k)

Tri(must, mustnot) == IF must THEN "MUST" ELSE IF mustnot THEN "MUSTNOT" ELSE "GRAY"
ContractOf(o, b) == [content |-> Tri(MustContent(o, b), MustNotContent(o, b)),
                     select  |-> Tri(MustSelect(o, b), MustNotSelect(o, b))]

Meets(tri, flag) == (tri = "MUST" => flag) /\ (tri = "MUSTNOT" => ~flag)

\* Ideal walk: the LineChange list read off the edit script itself (deletions in new coordinates,
\* every deletion kept, M pairs as given).  The reference for attributing a failure to DV1/DV2.
RECURSIVE IdealFrom(_, _, _)
IdealFrom(o, bs, k) ==
  IF k > Len(o) THEN <<>>
  ELSE (CASE Unchanged(o[k]) -> <<>>
          [] o[k] = "I" -> <<Whole(NewNo(o, k))>>
          [] o[k] = "D" -> <<Whole(NewNo(o, k) + 1)>>
          [] o[k] = "M" -> <<Ranged(NewNo(o, k), PairRng(bs, k, k))>>)
       \o IdealFrom(o, bs, k + 1)

----------------------------------------------------------------------------
(* Properties *)

Done == pc = "done"

FlagsWith(o, b, cs, linear, u1) == [content |-> ContentModified(o, b, cs, linear, u1), tag |-> TagModified(o, b, cs, linear, u1)]
FlagsOf(o, b, cs) == FlagsWith(o, b, cs, FixF1, FixU1)        \* the scan as coded

\* The design meets the contract -- checked with all repairs switched on and the ideal walk.
DesignMeetsContract ==
  Done => \A n \in 1..Len(blocks) :
            LET b == blocks[n]
                c == ContractOf(ops, b)
                f == FlagsWith(ops, b, IdealFrom(ops, blocks, 1), TRUE, TRUE)
            IN Meets(c.content, f.content) /\ Meets(c.select, f.content \/ f.tag)

\* The walk as coded meets the contract (violated by DV1/DV2 when the switches are FALSE --
\* used only in configurations where they are TRUE, to show the deviations are the only gap).
WalkMeetsContract ==
  Done => \A n \in 1..Len(blocks) :
            LET b == blocks[n]
                c == ContractOf(ops, b)
                f == FlagsOf(ops, b, changes)
            IN Meets(c.content, f.content) /\ Meets(c.select, f.content \/ f.tag)

\* step invariants of the walk
QueueOnlyHoldsRemoved == \A k \in 1..Len(q) : q[k].t = "-"
ChangesGrowOnly == [][Len(changes') >= Len(changes)]_vars
QueueEmptyAtDone == Done => q = <<>>
StepwiseEqualsRecursive == Done => changes = Walk(dl, blocks, FixDV1, FixDV2)
TypeOK == /\ i \in 1..(Len(dl) + 1) /\ pc \in {"gen", "walk", "done"} /\ prevAdded \in BOOLEAN

Terminates == <>Done

Emit == Done => PrintT(<<"CASE", ToJson(
          [ops |-> ops, blocks |-> blocks, changes |-> changes,
           per |-> [n \in 1..Len(blocks) |->
                      [contract |-> ContractOf(ops, blocks[n]),
                       pred     |-> FlagsOf(ops, blocks[n], changes),
                       lin      |-> FlagsWith(ops, blocks[n], changes, TRUE, FixU1),
                       u1       |-> FlagsWith(ops, blocks[n], changes, TRUE, TRUE),
                       fix1     |-> FlagsWith(ops, blocks[n], Walk(dl, blocks, TRUE, FixDV2), TRUE, FixU1),
                       fix2     |-> FlagsWith(ops, blocks[n], Walk(dl, blocks, FixDV1, TRUE), TRUE, FixU1),
                       fix12    |-> FlagsWith(ops, blocks[n], Walk(dl, blocks, TRUE, TRUE), TRUE, FixU1),
                       idealc   |-> FlagsWith(ops, blocks[n], IdealFrom(ops, blocks, 1), TRUE, FixU1),
                       ideal    |-> FlagsWith(ops, blocks[n], IdealFrom(ops, blocks, 1), TRUE, TRUE)]]])>>)
=============================================================================
