--------------------------------- MODULE Soup ---------------------------------
(***************************************************************************)
(* C04: no crash or hang on any input.                                     *)
(* The system's terminal states are Report (exit 0 or 1) and Error (exit 1 *)
(* with a message); there is no Panic / Abort / Timeout state.  Every run  *)
(* made for any property is also an observation of this contract (every    *)
(* trace specification rejects a run that ends otherwise).  This module is *)
(* the generator for the hostile inputs: per language family an alphabet   *)
(* of tokens (comment openers and closers, tag fragments, quotes, brackets,*)
(* newlines, multi-byte characters); TLC enumerates EVERY token sequence   *)
(* up to MaxLen, the harness feeds each to the real parsers under each     *)
(* suffix of the family in scan, list and diff mode.                       *)
(***************************************************************************)
EXTENDS Integers, Sequences, FiniteSets, TLC, Json

CONSTANTS Family, MaxLen

VARIABLES soup, outcome
vars == <<soup, outcome>>

Alphabet ==
  CASE Family = "c"    -> {"open", "close", "line", "docopen", "star", "tag", "endtag", "tagq", "dq", "sq", "lt", "gt", "eq",
                           "x", "nl", "cr", "mb2", "nbsp", "emoji", "comb", "slash"}
    [] Family = "hash" -> {"hash", "tag", "endtag", "tagq", "dq", "sq", "lt", "gt", "x", "nl", "crnl", "mb2", "nbsp", "emoji",
                           "comb", "bslash", "tab"}
    [] Family = "xml"  -> {"xopen", "xclose", "dashes", "xopen_short", "xclose_short", "tag", "endtag", "tagq", "dq", "lt", "gt",
                           "x", "nl", "sp", "mb2", "emoji", "comb"}
    [] Family = "md"   -> {"xopen", "xclose", "mdlink", "hash", "lpar", "rpar", "dq", "sq", "tag", "endtag", "lt", "x", "nl", "sp",
                           "mb2", "emoji", "li", "quote", "colon"}
    [] Family = "sql"  -> {"dashes", "open", "close", "tag", "endtag", "sq", "x", "nl", "mb2", "star"}
    [] Family = "diff" -> {"src", "tgt", "hunk1", "hunkdel", "hunkadd", "minus", "plus", "ctx", "nonl", "bodysrc", "bodytgt",
                           "git", "empty", "badhunk", "tgtnull", "minus_mb", "plus_mb"}

\* git never writes a "+++" header without the "---" header before it
GitPlausible(s) == Family = "diff" =>
                     \A k \in 1..Len(s) : s[k] \in {"tgt", "tgtnull", "bodytgt"} => \E j \in 1..(k - 1) : s[j] \in {"src", "bodysrc"}
Init == soup \in UNION {[1..n -> Alphabet] : n \in 0..MaxLen} /\ GitPlausible(soup) /\ outcome = "pending"
\* the run: the only terminal states of the system
Run(o) == outcome = "pending" /\ o \in {"report", "error"} /\ outcome' = o /\ UNCHANGED soup
Next == \E o \in {"report", "error"} : Run(o)
Spec == Init /\ [][Next]_vars
NoCrashState == outcome \in {"pending", "report", "error"}
Emit == outcome = "report" => PrintT(<<"CASE", ToJson([family |-> Family, soup |-> soup])>>)
=============================================================================
