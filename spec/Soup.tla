--------------------------------- MODULE Soup ---------------------------------
(***************************************************************************)
(* C04: no crash or hang on any input.                                     *)
(* The system's terminal states are Report (exit 0 or 1) and Error (exit 1 *)
(* with a message); there is no Panic / Abort / Timeout state.  Every run  *)
(* made for any property is also an observation of this contract (every    *)
(* trace specification rejects a run that ends otherwise).  This module is *)
(* the generator for the hostile inputs: per language family an alphabet   *)
(* of tokens (comment openers and closers, tag fragments, quotes, brackets,*)
(* newlines, multi-byte characters); the input is built one token at a     *)
(* time (action Extend), so TLC enumerates EVERY token sequence up to      *)
(* MaxLen as the reachable "building" states without ever constructing the *)
(* set of all sequences; from each of them the run (action Run) ends in    *)
(* one of the two terminal states.  The harness feeds each sequence to the *)
(* real parsers under each suffix of the family in scan, list and diff     *)
(* mode.  (Size and depth are the business of Deep.tla.)                   *)
(***************************************************************************)
EXTENDS Integers, Sequences, FiniteSets, TLC, Json

CONSTANTS Family, MaxLen

VARIABLES soup, outcome
vars == <<soup, outcome>>

Alphabet ==
  CASE Family = "c"    -> {"open", "close", "line", "docopen", "star", "tag", "endtag", "tagq", "dq", "sq", "lt", "gt", "eq",
                           "x", "nl", "cr", "mb2", "nbsp", "emoji", "comb", "slash", "nbcont", "mbcont"}
    [] Family = "hash" -> {"hash", "tag", "endtag", "tagq", "dq", "sq", "lt", "gt", "x", "nl", "crnl", "mb2", "nbsp", "emoji",
                           "comb", "bslash", "tab"}
    [] Family = "xml"  -> {"xopen", "xclose", "dashes", "xopen_short", "xclose_short", "tag", "endtag", "tagq", "dq", "lt", "gt",
                           "x", "nl", "sp", "mb2", "emoji", "comb"}
    [] Family = "md"   -> {"xopen", "xclose", "mdlink", "hash", "lpar", "rpar", "dq", "sq", "tag", "endtag", "lt", "x", "nl", "sp",
                           "mb2", "emoji", "li", "quote", "colon"}
    [] Family = "sql"  -> {"dashes", "open", "close", "tag", "endtag", "sq", "x", "nl", "mb2", "star"}
    [] Family = "diff" -> {"src", "tgt", "hunk1", "hunkdel", "hunkadd", "minus", "plus", "ctx", "nonl", "bodysrc", "bodytgt",
                           "git", "empty", "badhunk", "tgtnull", "minus_mb", "plus_mb", "samepair", "samepair_nonl", "deltail"}

\* git never writes a "+++" header without the "---" header before it (prefix-closed, so it is enforced per token)
GitPlausible(s) == Family = "diff" =>
                     \A k \in 1..Len(s) : s[k] \in {"tgt", "tgtnull", "bodytgt"} => \E j \in 1..(k - 1) : s[j] \in {"src", "bodysrc"}
Init == soup = <<>> /\ outcome = "building"
\* the input grows by one token
Extend == /\ outcome = "building" /\ Len(soup) < MaxLen
          /\ \E t \in Alphabet : GitPlausible(Append(soup, t)) /\ soup' = Append(soup, t)
          /\ UNCHANGED outcome
\* the run on the input built so far: the only terminal states of the system
Run(o) == outcome = "building" /\ o \in {"report", "error"} /\ outcome' = o /\ UNCHANGED soup
Next == Extend \/ \E o \in {"report", "error"} : Run(o)
Spec == Init /\ [][Next]_vars
NoCrashState == outcome \in {"building", "report", "error"}
Emit == outcome = "report" => PrintT(<<"CASE", ToJson([family |-> Family, soup |-> soup])>>)
=============================================================================
