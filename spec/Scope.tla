-------------------------------- MODULE Scope --------------------------------
(***************************************************************************)
(* C15: which files are examined (src/blocks.rs parse_blocks, main.rs,     *)
(* diff_parser.rs line_changes_from_diff).                                 *)
(* A path is a sequence of components.  Implementation-shaped part: the    *)
(* walk loop (WalkFile: allow /\ ~ignore, removes the file from the diff   *)
(* map) followed by the loop over the remaining diff files (DiffFile:      *)
(* ~ignore).  Contract:                                                    *)
(*   Examined = ((Walk \ Hidden \ GitIgnored) \cap Allow  \cup  DiffFiles) *)
(*              \ Ignore                                                   *)
(* with Allow = every walked file when run interactively without globs,    *)
(* and diff paths = git's "b/<path>" with exactly one leading "b/" removed *)
(* (StripB; the first coding stripped repeatedly -- deviation S1).         *)
(* Glob semantics of the four documented forms are written out.            *)
(***************************************************************************)
EXTENDS Integers, Sequences, FiniteSets, TLC, Json

CONSTANTS Tree,        \* set of paths (sequences of component strings) present on disk
          Hidden,      \* subset: hidden (dot) paths
          GitIgnored,  \* subset: matched by .gitignore
          Quoted,      \* subset: paths that git writes as a quoted string in diff headers
          FixQ1,       \* TRUE = quoted diff paths are unquoted (repaired), FALSE = taken literally (as first coded)
          GlobPool,    \* set of glob records [form, arg]
          MaxGlobs, MaxIgnores, MaxDiff,
          FixS1,
          AnyOrder     \* TRUE: files are walked in every order; FALSE: one fixed order (for emission)

VARIABLES globs, ignores, diffPaths, terminal,   \* input
          todoWalk, leftover, examined, pc

vars == <<globs, ignores, diffPaths, terminal, todoWalk, leftover, examined, pc>>

Last(p) == p[Len(p)]
\* *.ext  : '*' also crosses '/', so any path whose last component ends in .ext (ext = arg)
\* dir/** : every path below directory arg (a sequence of components)
\* **/name: every path whose last component is arg (at any depth, including the root)
\* exact  : the path itself
ExtOf(name) == name                 \* file names in the pool are records; see Matches
Matches(g, p) ==
  CASE g.form = "ext"    -> p.ext = g.arg
    [] g.form = "dir"    -> Len(p.dirs) >= Len(g.arg) /\ SubSeq(p.dirs, 1, Len(g.arg)) = g.arg
    [] g.form = "name"   -> p.base = g.arg
    [] g.form = "exact"  -> p = g.arg
    [] g.form = "exactdir" -> FALSE               \* the exact path of a DIRECTORY: no file has that path (the files under it do not match)
    [] g.form = "all"    -> TRUE
    [] g.form = "set"    -> p \in g.arg          \* (trace validation: the logged allow / ignore decisions)

MatchAny(gs, p) == \E g \in gs : Matches(g, p)

Walkable == (Tree \ Hidden) \ GitIgnored
Allow(gs, term) == IF gs = {} THEN (IF term THEN Walkable ELSE {}) ELSE {p \in Walkable : MatchAny(gs, p)}

\* the path blockwatch derives from the diff header "+++ b/<dirs>/<base>"
RECURSIVE StripAllB(_)
StripAllB(ds) == IF ds # <<>> /\ Head(ds) = "b" THEN StripAllB(Tail(ds)) ELSE ds
\* Q1: git writes a path with "unusual" characters (any non-ASCII byte under the default core.quotePath, control
\* characters, double quote, backslash) as a C-style quoted string: +++ "b/caf\303\251.py".  As first coded the
\* quoted string was taken for the path itself: no such file, no grammar for its "extension" -- skipped silently.
Ghost(p) == [dirs |-> <<"\"b">> \o p.dirs, base |-> p.base, ext |-> "none"]
IsGhost(p) == ~FixQ1 /\ \E x \in Quoted : p = Ghost(x)
Derived(p) == IF ~FixQ1 /\ p \in Quoted THEN Ghost(p)
              ELSE IF FixS1 THEN p ELSE [dirs |-> StripAllB(p.dirs), base |-> p.base, ext |-> p.ext]

Init ==
  /\ globs \in {s \in SUBSET GlobPool : Cardinality(s) <= MaxGlobs}
  /\ ignores \in {s \in SUBSET GlobPool : Cardinality(s) <= MaxIgnores}
  /\ diffPaths \in {s \in SUBSET Tree : Cardinality(s) <= MaxDiff}
  /\ terminal \in BOOLEAN
  /\ (terminal => diffPaths = {})                 \* interactive: no diff on stdin
  /\ todoWalk = (IF globs # {} \/ terminal THEN Walkable ELSE {})   \* should_scan_files
  /\ leftover = {Derived(p) : p \in diffPaths}
  /\ examined = {} /\ pc = "walk"

\* `for result in file_system.walk()` -- any order
WalkFile ==
  /\ pc = "walk" /\ todoWalk # {}
  /\ \E p \in (IF AnyOrder THEN todoWalk ELSE {CHOOSE x \in todoWalk : TRUE}) :
       /\ todoWalk' = todoWalk \ {p}
       /\ IF ((terminal /\ globs = {}) \/ MatchAny(globs, p)) /\ ~MatchAny(ignores, p)
          THEN examined' = examined \cup {p} /\ leftover' = leftover \ {p}
          ELSE UNCHANGED <<examined, leftover>>
  /\ UNCHANGED <<globs, ignores, diffPaths, terminal, pc>>
WalkDone == /\ pc = "walk" /\ todoWalk = {} /\ pc' = "diff"
            /\ UNCHANGED <<globs, ignores, diffPaths, terminal, todoWalk, leftover, examined>>
\* `for (file_path, line_changes) in line_changes_by_file` -- any order
DiffFile ==
  /\ pc = "diff" /\ leftover # {}
  /\ \E p \in (IF AnyOrder THEN leftover ELSE {CHOOSE x \in leftover : TRUE}) :
       /\ leftover' = leftover \ {p}
       /\ examined' = IF MatchAny(ignores, p) \/ IsGhost(p) THEN examined ELSE examined \cup {p}   \* ghost: no such file, no grammar -- skipped
  /\ UNCHANGED <<globs, ignores, diffPaths, terminal, todoWalk, pc>>
DiffDone == /\ pc = "diff" /\ leftover = {} /\ pc' = "done"
            /\ UNCHANGED <<globs, ignores, diffPaths, terminal, todoWalk, leftover, examined>>
Next == WalkFile \/ WalkDone \/ DiffFile \/ DiffDone
Spec == Init /\ [][Next]_vars

Expected == (Allow(globs, terminal) \cup diffPaths) \ {p \in Tree : MatchAny(ignores, p)}
Done == pc = "done"
ExaminedIsExpected == Done /\ FixS1 /\ FixQ1 => examined = Expected
\* with quoted paths taken literally the only difference is a diff naming a file whose path git quotes
Q1IsTheOnlyGap == Done /\ FixS1 /\ ~FixQ1 /\ diffPaths \cap Quoted = {} => examined = Expected
\* with the first coding the only difference is a diff path under a directory named "b" at the root
S1IsTheOnlyGap == Done /\ ~FixS1 /\ (\A p \in diffPaths : p.dirs = <<>> \/ Head(p.dirs) # "b") => examined = Expected
NothingOutsideTree == FixS1 /\ FixQ1 => examined \subseteq Tree
TypeOK == pc \in {"walk", "diff", "done"}

Emit == Done => PrintT(<<"CASE", ToJson([globs |-> globs, ignores |-> ignores, diff |-> diffPaths, terminal |-> terminal,
                                          expected |-> Expected, examined |-> examined])>>)
=============================================================================
