#!/bin/bash
# usage: seedtest.sh <seed-dir-name> [tier] [property to check instead of the seed's own]   -- applies a seeded change to /repo, runs the property's check, undoes it
s=$1; tier=${2:-quick}; p=${3:-${s%%-*}}
if ! git -C /repo diff --quiet; then echo "repo dirty"; exit 2; fi
git -C /repo apply /verif/seeded/$s/patch.diff || { echo "APPLY FAILED $s"; exit 2; }
python3 /verif/tools/check.py $p --tier $tier > /verif/work/seedtest-$s.log 2>&1; rc=$?
git -C /repo checkout -- .
echo "$s rc=$rc $(grep -c '^VIOLATION' /verif/work/seedtest-$s.log) violations; $(grep -v KNOWN /verif/work/seedtest-$s.log | tail -1 | cut -c1-160)"
