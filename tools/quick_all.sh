#!/bin/bash
# every property's quick tier, one after the other; summary in work/quick.log
cd /verif
out=/verif/work/quick.log; : > $out
for p in C01 C02 C03 C04 C05 C06 C07 C08 C09 C10 C11 C12 C13 C14 C15 C16 C17 C18 C19 C20; do
  s=$(date +%s)
  python3 tools/check.py $p --tier quick > work/quick-$p.log 2>&1; rc=$?
  e=$(date +%s)
  echo "$p rc=$rc $((e-s))s $(grep -v '^KNOWN' work/quick-$p.log | tail -1 | cut -c1-200)" >> $out
done
echo FINISHED >> $out
