#!/usr/bin/env python3
"""Entry point: python3 tools/check.py <PROPERTY> [--tier quick|thorough] [--replay PATH] | --setup

exit 0: property held on everything explored; exit 1: VIOLATION line(s) printed; exit 2: tool error.
"""
import argparse
import glob
import importlib
import json
import os
import sys
import traceback

sys.path.insert(0, os.path.dirname(os.path.abspath(__file__)))
import vlib  # noqa: E402


def setup():
    vlib.build(quiet=False)
    bad = 0
    for d in (vlib.SPEC, os.path.join(vlib.SPEC, "mc"), os.path.join(vlib.SPEC, "trace")):
        for f in sorted(glob.glob(os.path.join(d, "*.tla"))):
            ok, out = vlib.sany(f)
            print("SANY %-28s %s" % (os.path.basename(f), "ok" if ok else "FAILED"))
            if not ok:
                sys.stderr.write(out[-3000:])
                bad += 1
    return 2 if bad else 0


def main():
    ap = argparse.ArgumentParser()
    ap.add_argument("prop", nargs="?")
    ap.add_argument("--tier", default=os.environ.get("VERIF_TIER", "quick"), choices=["quick", "thorough"])
    ap.add_argument("--replay")
    ap.add_argument("--setup", action="store_true")
    ap.add_argument("--no-build", action="store_true")
    a = ap.parse_args()
    if a.setup:
        sys.exit(setup())
    if not a.prop:
        ap.error("property id required")
    pid = a.prop.upper()
    seed = int(os.environ.get("VERIF_SEED", "20261003"))
    try:
        mod = importlib.import_module("props." + pid.lower())
    except ModuleNotFoundError:
        vlib.die_tool("no check for " + pid)
    if not a.no_build:
        vlib.build()
    if a.replay:
        rc = mod.replay(a.replay) if hasattr(mod, "replay") else generic_replay(a.replay)
        sys.exit(rc)
    chk = vlib.Check(pid, a.tier, seed, level=getattr(mod, "LEVEL", "model_checking"))
    try:
        mod.run(chk)
        rc = chk.finish()
    except vlib.ToolError as e:
        vlib.die_tool(str(e))
    except SystemExit:
        raise
    except Exception:
        traceback.print_exc()
        vlib.die_tool("internal error in check " + pid)
    sys.exit(rc)


def generic_replay(path):
    """Re-runs the concrete case stored in a replay file through bwexec and the CLI and prints the result."""
    obj = json.load(open(path))
    case = obj["case"].get("concrete") or obj["case"]
    case = dict(case, id="replay")
    print("property:", obj.get("property"))
    print("what    :", obj.get("what"))
    r1 = vlib.run_bwexec([case]).get("replay")
    print("in-process:", json.dumps(r1, ensure_ascii=False)[:3000])
    r2 = vlib.run_cli_one(case)
    print("cli       :", json.dumps({k: r2[k] for k in ("outcome", "exit", "list", "report", "error")},
                                    ensure_ascii=False)[:3000])
    if "expected" in obj["case"]:
        print("expected  :", json.dumps(obj["case"]["expected"], ensure_ascii=False)[:3000])
    return 0


if __name__ == "__main__":
    main()
