"""C04 no crash or hang on any input: Soup.tla (terminal-state contract + exhaustive token-soup
generator per language family) + replay of every soup under every suffix of the family in scan,
list and diff mode with panic capture and a watchdog; a sample through the real CLI."""
import json

import vlib
import langs
from props import rules_common as rc

LEVEL = "exploration"

SPELL = {
    "open": "/*", "close": "*/", "line": "//", "docopen": "/**", "star": " * ", "tag": "<block>", "endtag": "</block>",
    "tagq": "<block name=\"", "dq": "\"", "sq": "'", "lt": "<", "gt": ">", "eq": "=", "x": "x", "nl": "\n", "cr": "\r",
    "mb2": "é", "nbsp": " ", "emoji": "😀", "comb": "é", "slash": "/", "hash": "#", "crnl": "\r\n", "bslash": "\\",
    "tab": "\t", "xopen": "<!--", "xclose": "-->", "dashes": "--", "xopen_short": "<!-", "xclose_short": "->", "sp": " ",
    "mdlink": "[//]:", "lpar": "(", "rpar": ")", "li": "- ", "quote": "> ", "colon": ":",
    # diff lines
    "src": "--- a/f.py\n", "tgt": "+++ b/f.py\n", "hunk1": "@@ -1 +1 @@\n", "hunkdel": "@@ -1,2 +0,0 @@\n", "hunkadd": "@@ -0,0 +1,2 @@\n",
    "minus": "-old\n", "plus": "+# <block name=\"a\">\n", "minus_mb": "-# Превет é😀\n", "plus_mb": "+# Привет è😁\n", "ctx": " ctx\n", "nonl": "\\ No newline at end of file\n",
    "bodysrc": "--- x\n", "bodytgt": "+++ y\n", "git": "diff --git a/f.py b/f.py\n", "empty": "\n", "badhunk": "@@ -x +y @@\n",
    "tgtnull": "+++ /dev/null\n",
}
FAMILY_EXTS = {
    "c": langs.C_EXTS + ["css", "phtml", "go.mod", "go.work", "go.sum"],
    "hash": langs.HASH_EXTS + ["php"],
    "xml": ["html", "htm", "xml", "md", "markdown"],
    "md": ["md", "markdown"],
    "sql": ["sql"],
}


def run(chk):
    quick = chk.tier == "quick"
    chk.rule = ("TLC enumerates every token sequence of <= MaxLen tokens per language family (comment openers/closers, tag "
                "fragments incl. an unterminated quoted attribute, quotes, brackets, <, >, newline, CR, 2-byte / NBSP / emoji / "
                "combining characters; for diffs: header, hunk-header and body line classes incl. body lines that look like "
                "headers); every soup is parsed under every suffix of its family in scan, list and diff mode with panic "
                "capture and a per-shard watchdog; distinct_nontrivial = distinct (soup, suffix) pairs of length >= 2")
    bounds = {"c": 3 if quick else 4, "hash": 3 if quick else 4, "xml": 3 if quick else 4, "md": 3 if quick else 4,
              "sql": 4 if quick else 5, "diff": 4 if quick else 5}
    batch = []
    nontrivial = 0
    for fam, ml in bounds.items():
        res = vlib.run_tlc("MC_C04", cfg_text=rc.set_consts("MC_C04", Family='"%s"' % fam, MaxLen=ml), timeout=3000, heap="16g")
        chk.add_tlc(res, "MC_C04 %s MaxLen=%d" % (fam, ml))
        for ci, c in enumerate(res.cases):
            text = "".join(SPELL[t] for t in c["soup"])
            if fam == "diff":
                cid = "diff-%d" % ci
                batch.append({"id": cid, "files": {"f.py": "# <block name=\"a\">\nx\n# </block>\n"}, "diff": text,
                              "args": ["list"] if ci % 2 else [], "terminal": False, "_soup": c["soup"]})
                nontrivial += len(c["soup"]) >= 2
                continue
            exts = FAMILY_EXTS[fam]
            # quick: each soup under three suffixes of the family (rotating); thorough: under all
            chosen = exts if not quick else [exts[(ci + k * 7) % len(exts)] for k in range(3)]
            for ext in dict.fromkeys(chosen):
                name = langs.file_name(ext)
                pre = "\n".join(langs.header(ext)) + ("\n" if langs.header(ext) else "")
                mode = ci % 3
                case = {"id": "%s-%d-%s" % (fam, ci, ext), "files": {name: pre + text}, "diff": None, "args": [], "terminal": True,
                        "_soup": c["soup"]}
                if mode == 1:
                    case["args"] = ["list"]
                elif mode == 2:
                    # diff mode: the soup against the same soup with one character changed into a sibling that
                    # shares its leading UTF-8 byte(s), every line as a -/+ pair (character-level diff of hostile text)
                    new_t = pre + text
                    old_t = new_t
                    for a, b in (("é", "è"), ("😀", "😁"), ("\u00a0", "\u00a1"), ("x", "y"), ("<", "(")):
                        if a in old_t:
                            old_t = old_t.replace(a, b, 1)
                            break
                    else:
                        old_t = old_t + "ж"
                        new_t = new_t + "з"
                        case["files"] = {name: new_t}
                    ol, nl_ = old_t.split("\n"), new_t.split("\n")
                    case.update(terminal=False, diff="diff --git a/%s b/%s\n--- a/%s\n+++ b/%s\n@@ -1,%d +1,%d @@\n%s%s" % (
                        name, name, name, name, len(ol), len(nl_), "".join("-" + l + "\n" for l in ol),
                        "".join("+" + l + "\n" for l in nl_)))
                batch.append(case)
                nontrivial += len(c["soup"]) >= 2
    chk.exhaustive = True
    results = vlib.run_bwexec(batch, timeout_per_shard=900)
    sites = {}
    for case in batch:
        r = results.get(case["id"])
        chk.evaluations += 1
        if r is None:
            raise vlib.ToolError("no result for " + case["id"])
        if r["outcome"] in ("panic", "hang", "abort"):
            site = (r.get("error") or "").split(": ")[0]
            sites.setdefault(site, []).append(case["id"])
            conc = {k: v for k, v in case.items() if not k.startswith("_")}
            chk.violation("%s on %r under %s: %s" % (r["outcome"], "".join(SPELL[t] for t in case["_soup"])[:60],
                                                    list(case["files"])[0], (r.get("error") or "")[:200]),
                          {"soup": case["_soup"], "concrete": conc, "observed": {k: r.get(k) for k in ("outcome", "exit", "error")}},
                          explained_by=())
    chk.nontrivial_count += nontrivial
    chk.notes["panic_sites"] = {k: len(v) for k, v in sites.items()}
    # CLI sample: the process must exit 0 or 1 (never 101 / 134 / a signal), promptly
    sample = list(batch)
    chk.rng.shuffle(sample)
    sample = [{k: v for k, v in c.items() if not k.startswith("_")} for c in sample[:300 if quick else 3000]]
    cres = vlib.run_cli(sample, timeout=20)
    for c in sample:
        r = cres[c["id"]]
        chk.evaluations += 1
        if r["outcome"] in ("panic", "hang", "other") or r["exit"] not in (0, 1, 2):
            chk.violation("CLI: %s (exit %s) on %s" % (r["outcome"], r["exit"], list(c["files"])[0]),
                          {"concrete": c, "stderr": (r.get("stderr") or "")[-400:]})
    chk.sample({"family": "c", "soup": ["open", "tag", "nl"], "text": "/*<block>\n"})
