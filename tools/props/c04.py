"""C04 no crash or hang on any input: Soup.tla (terminal-state contract + exhaustive token-soup
generator per language family) + replay of every soup under every suffix of the family in scan,
list and diff mode with panic capture and a watchdog; a sample through the real CLI."""
import json

import vlib
import langs
from props import rules_common as rc

LEVEL = "exploration"

SPELL = {
    "open": "/*", "close": "*/", "line": "//", "docopen": "/**", "star": " * ", "tag": "<block>", "endtag": "</block>",
    "tagq": "<block name=\"", "dq": "\"", "sq": "'", "lt": "<", "gt": ">", "eq": "=", "x": "x", "nl": "\n", "cr": "\r",
    "mb2": "é", "nbsp": " ", "emoji": "😀", "comb": "é", "slash": "/", "hash": "#", "crnl": "\r\n", "bslash": "\\",
    "tab": "\t", "xopen": "<!--", "xclose": "-->", "dashes": "--", "xopen_short": "<!-", "xclose_short": "->", "sp": " ",
    # continuation lines of a block comment whose decorative '*' is indented by multi-byte white space
    "nbcont": "\n\u00a0* x\n", "mbcont": "\n\u3000*\n",
    "mdlink": "[//]:", "lpar": "(", "rpar": ")", "li": "- ", "quote": "> ", "colon": ":",
    # diff lines
    "src": "--- a/f.py\n", "tgt": "+++ b/f.py\n", "hunk1": "@@ -1 +1 @@\n", "hunkdel": "@@ -1,2 +0,0 @@\n", "hunkadd": "@@ -0,0 +1,2 @@\n",
    "minus": "-old\n", "plus": "+# <block name=\"a\">\n", "minus_mb": "-# Превет é😀\n", "plus_mb": "+# Привет è😁\n", "ctx": " ctx\n", "nonl": "\\ No newline at end of file\n",
    "bodysrc": "--- x\n", "bodytgt": "+++ y\n", "git": "diff --git a/f.py b/f.py\n", "empty": "\n", "badhunk": "@@ -x +y @@\n",
    "tgtnull": "+++ /dev/null\n",
    # a -/+ pair with identical text (only the line terminator changed), with and without git's marker line
    # lines removed from the end of a file that used to be longer: old line numbers beyond the end of the file on disk
    "deltail": "@@ -5,2 +4,0 @@\n-gone 1\n-gone 2\n",
    "samepair": "-# <block name=\"a\">\n+# <block name=\"a\">\n",
    "samepair_nonl": "-# <block name=\"a\">\n\\ No newline at end of file\n+# <block name=\"a\">\n",
}
FAMILY_EXTS = {
    "c": langs.C_EXTS + ["css", "phtml", "go.mod", "go.work", "go.sum"],
    "hash": langs.HASH_EXTS + ["php"],
    "xml": ["html", "htm", "xml", "md", "markdown"],
    "md": ["md", "markdown"],
    "sql": ["sql"],
}


def run(chk):
    quick = chk.tier == "quick"
    chk.rule = ("TLC enumerates every token sequence of <= MaxLen tokens per language family (comment openers/closers, tag "
                "fragments incl. an unterminated quoted attribute, quotes, brackets, <, >, newline, CR, 2-byte / NBSP / emoji / "
                "combining characters; for diffs: header, hunk-header and body line classes incl. body lines that look like "
                "headers); every soup is parsed under every suffix of its family in scan, list and diff mode with panic "
                "capture and a per-shard watchdog; distinct_nontrivial = distinct (soup, suffix) pairs of length >= 2")
    bounds = {"c": 3 if quick else 4, "hash": 3 if quick else 4, "xml": 3 if quick else 4, "md": 3 if quick else 4,
              "sql": 4 if quick else 5, "diff": 4 if quick else 5}
    batch = []
    nontrivial = 0
    for fam, ml in bounds.items():
        res = vlib.run_tlc("MC_C04", cfg_text=rc.set_consts("MC_C04", Family='"%s"' % fam, MaxLen=ml), timeout=3000, heap="16g")
        chk.add_tlc(res, "MC_C04 %s MaxLen=%d" % (fam, ml))
        for ci, c in enumerate(res.cases):
            text = "".join(SPELL[t] for t in c["soup"])
            if fam == "diff":
                cid = "diff-%d" % ci
                batch.append({"id": cid, "files": {"f.py": "# <block name=\"a\">\nx\n# </block>\n"}, "diff": text,
                              "args": ["list"] if ci % 2 else [], "terminal": False, "_soup": c["soup"]})
                nontrivial += len(c["soup"]) >= 2
                continue
            exts = FAMILY_EXTS[fam]
            # quick: each soup under three suffixes of the family (rotating); thorough: under all
            chosen = exts if not quick else [exts[(ci + k * 7) % len(exts)] for k in range(3)]
            for ext in dict.fromkeys(chosen):
                name = langs.file_name(ext)
                pre = "\n".join(langs.header(ext)) + ("\n" if langs.header(ext) else "")
                mode = ci % 3
                case = {"id": "%s-%d-%s" % (fam, ci, ext), "files": {name: pre + text}, "diff": None, "args": [], "terminal": True,
                        "_soup": c["soup"]}
                if mode == 1:
                    case["args"] = ["list"]
                elif mode == 2:
                    # diff mode: the soup against the same soup with one character changed into a sibling that
                    # shares its leading UTF-8 byte(s), every line as a -/+ pair (character-level diff of hostile text)
                    new_t = pre + text
                    old_t = new_t
                    for a, b in (("é", "è"), ("😀", "😁"), ("\u00a0", "\u00a1"), ("x", "y"), ("<", "(")):
                        if a in old_t:
                            old_t = old_t.replace(a, b, 1)
                            break
                    else:
                        old_t = old_t + "ж"
                        new_t = new_t + "з"
                        case["files"] = {name: new_t}
                    ol, nl_ = old_t.split("\n"), new_t.split("\n")
                    case.update(terminal=False, diff="diff --git a/%s b/%s\n--- a/%s\n+++ b/%s\n@@ -1,%d +1,%d @@\n%s%s" % (
                        name, name, name, name, len(ol), len(nl_), "".join("-" + l + "\n" for l in ol),
                        "".join("+" + l + "\n" for l in nl_)))
                batch.append(case)
                nontrivial += len(c["soup"]) >= 2
    chk.exhaustive = True
    results = vlib.run_bwexec(batch, timeout_per_shard=900)
    sites = {}
    for case in batch:
        r = results.get(case["id"])
        chk.evaluations += 1
        if r is None:
            raise vlib.ToolError("no result for " + case["id"])
        if r["outcome"] in ("panic", "hang", "abort"):
            site = (r.get("error") or "").split(": ")[0]
            sites.setdefault(site, []).append(case["id"])
            conc = {k: v for k, v in case.items() if not k.startswith("_")}
            chk.violation("%s on %r under %s: %s" % (r["outcome"], "".join(SPELL[t] for t in case["_soup"])[:60],
                                                    list(case["files"])[0], (r.get("error") or "")[:200]),
                          {"soup": case["_soup"], "concrete": conc, "observed": {k: r.get(k) for k in ("outcome", "exit", "error")}},
                          explained_by=())
    chk.nontrivial_count += nontrivial
    chk.notes["panic_sites"] = {k: len(v) for k, v in sites.items()}
    # CLI sample: the process must exit 0 or 1 (never 101 / 134 / a signal), promptly
    sample = list(batch)
    chk.rng.shuffle(sample)
    sample = [{k: v for k, v in c.items() if not k.startswith("_")} for c in sample[:300 if quick else 3000]]
    cres = vlib.run_cli(sample, timeout=20)
    for c in sample:
        r = cres[c["id"]]
        chk.evaluations += 1
        if r["outcome"] in ("panic", "hang", "other") or r["exit"] not in (0, 1, 2):
            chk.violation("CLI: %s (exit %s) on %s" % (r["outcome"], r["exit"], list(c["files"])[0]),
                          {"concrete": c, "stderr": (r.get("stderr") or "")[-400:]})
    deep_inputs(chk, quick)
    chk.sample({"family": "c", "soup": ["open", "tag", "nl"], "text": "/*<block>\n"})


def deep_text(construct, d):
    """(file name, text) for one Deep.tla (construct, depth) pair; depth scales the tree constructs by 10."""
    c_blk = '// <block name="ok">\nx\n// </block>\n'
    h_blk = '# <block name="ok">\nx\n# </block>\n'
    x_blk = '<!-- <block name="ok"> -->\n\nx\n\n<!-- </block> -->\n'
    D = d * 10
    if construct in ("py_indent", "yaml_map", "md_list", "md_quote", "toml_table", "tagnest"):
        d = min(d, 3000)          # text size is quadratic in the depth
    if construct == "chain":
        return [("chain.py", "TOTAL = " + " + ".join(["1"] * D) + "\n" + h_blk), ("chain.js", "const t = " + " + ".join(["1"] * D) + ";\n" + c_blk),
                ("chain.rs", "const T: u64 = " + " + ".join(["1"] * D) + ";\n" + c_blk), ("chain.rb", "t = " + " + ".join(["1"] * D) + "\n" + h_blk),
                ("chain.java", "class A { int t = " + " + ".join(["1"] * D) + "; }\n" + c_blk)]
    if construct == "brackets":
        return [("nest.py", "v = " + "[" * D + "]" * D + "\n" + h_blk), ("nest.js", "const v = " + "[" * D + "]" * D + ";\n" + c_blk),
                ("nest.go", "package p\nvar v = " + "(" * D + "1" + ")" * D + "\n" + c_blk), ("nest.c", "int v = " + "(" * D + "1" + ")" * D + ";\n" + c_blk),
                ("nest.sql", "SELECT " + "(" * d + "1" + ")" * d + ";\n" + '-- <block name="ok">\nx\n-- </block>\n')]
    if construct == "markup":
        return [("nest.html", "<div>" * d + "x" + "</div>" * d + "\n" + x_blk), ("nest.xml", "<r>" * d + "x" + "</r>" * d + "\n" + x_blk)]
    if construct == "tagnest":
        return [("tags.rs", "".join('// <block name="d%d">\n' % k for k in range(d)) + "x\n" + "// </block>\n" * d + c_blk)]
    if construct == "longline":
        return [("longline.py", "x = '" + "a" * (D * 100) + "'\n" + h_blk)]
    if construct == "longcomment":
        return [("longcomment.c", "/* " + "<b " * D + " */\n" + c_blk), ("longcomment.py", "# " + "< " * D + "\n" + h_blk)]
    if construct == "manycomments":
        return [("manycomments.sh", "# c\n" * D + h_blk)]
    if construct == "py_indent":
        return [("indent.py", "".join(" " * k + "if x:\n" for k in range(d)) + " " * d + "pass\n" + h_blk)]
    if construct == "html_tags":
        return [("tags.html", "".join("<t%d>" % k for k in range(d)) + "x" + "".join("</t%d>" % k for k in reversed(range(d))) + "\n" + x_blk)]
    if construct == "jsx_tags":
        return [("jsx.tsx", "const e = " + "<a>" * d + "x" + "</a>" * d + ";\n" + c_blk)]
    if construct == "heredoc_sh":
        return [("heredoc.sh", "".join("cat <<E%d\n" % k for k in range(d)) + "".join("E%d\n" % k for k in range(d)) + h_blk)]
    if construct == "heredoc_rb":
        return [("heredoc.rb", "x = [" + ", ".join("<<~H%d" % k for k in range(d)) + "]\n" + "".join("a\nH%d\n" % k for k in range(d)) + h_blk)]
    if construct == "rawstr_rs":
        return [("rawstr.rs", "const S: &str = r" + "#" * d + "\"x\"" + "#" * d + ";\n" + c_blk)]
    if construct == "rawstr_cpp":
        return [("rawstr.cpp", "const char* s = R\"" + "d" * d + "(x)" + "d" * d + "\";\n" + c_blk)]
    if construct == "template_js":
        return [("template.js", "const t = " + "`${" * d + "1" + "}`" * d + ";\n" + c_blk)]
    if construct == "interp_kt":
        return [("interp.kt", "val s = " + "\"${" * d + "1" + "}\"" * d + "\n" + c_blk)]
    if construct == "interp_swift":
        return [("interp.swift", "let s = " + "\"\\(" * d + "1" + ")\"" * d + "\n" + c_blk)]
    if construct == "interp_cs":
        return [("interp.cs", "var s = " + "$\"{" * d + "1" + "}\"" * d + ";\n" + c_blk)]
    if construct == "css_nest":
        return [("nest.css", "a {" * d + "}" * d + "\n/* <block name=\"ok\"> */\nx\n/* </block> */\n")]
    if construct == "toml_table":
        dd = min(d, 300)
        return [("table.toml", "".join("[" + ".".join("t%d" % j for j in range(k + 1)) + "]\n" for k in range(dd)) + h_blk)]
    if construct == "yaml_flow":
        return [("flow.yaml", "v: " + "[" * d + "]" * d + "\n" + h_blk)]
    if construct == "yaml_map":
        return [("nest.yaml", "".join(" " * k + "k%d:\n" % k for k in range(d)) + h_blk),
                ("nest.yml", "".join(" " * k + "- \n" for k in range(d)) + h_blk)]
    if construct == "md_quote":
        return [("quote.md", "> " * d + "x\n\n" + x_blk), ("quote.markdown", "".join("> " * (k + 1) + "x\n" for k in range(d)) + "\n" + x_blk)]
    if construct == "md_list":
        return [("list.md", "".join("  " * k + "- a\n" for k in range(d)) + "\n" + x_blk)]
    raise ValueError(construct)


def deep_inputs(chk, quick):
    """Deep.tla: every (construct, depth) pair through the real process (main-thread stack) in list, scan and diff
    mode.  A crash is attributed to finding DP1 only where the as-coded model predicts the abort AND the process
    died in tree-sitter's scanner-state assertion; every other crash is a violation."""
    depths = "{1, 50, 200, 253, 254, 500, 3000, 20000}" if quick else "{1, 2, 50, 200, 252, 253, 254, 255, 256, 500, 3000, 20000, 100000}"
    res = vlib.run_tlc("MC_Deep", cfg_text=rc.set_consts("MC_Deep", Depths=depths), timeout=600, heap="2g")
    chk.add_tlc(res, "MC_Deep (as coded)")
    fixed = vlib.run_tlc("MC_Deep", cfg_text=rc.set_consts("MC_DeepFixed", Depths=depths), timeout=600, heap="2g")
    chk.add_tlc(fixed, "MC_Deep (FixDP1: contract holds)")
    cases, meta = [], {}
    for ci, c in enumerate(res.cases):
        for (name, text) in deep_text(c["construct"], c["depth"]):
            for mode in ("list", "scan", "diff"):
                case = {"id": "deep-%s-%d-%s-%s" % (c["construct"], c["depth"], name, mode), "files": {name: text}, "diff": None,
                        "args": [], "terminal": True}
                if mode == "list":
                    case["args"] = ["list"]
                elif mode == "diff":
                    last = text.count("\n")
                    case.update(terminal=False, diff="diff --git a/%s b/%s\n--- a/%s\n+++ b/%s\n@@ -%d +%d @@\n-y\n+x\n" % (
                        name, name, name, name, last - 1, last - 1))
                cases.append(case)
                meta[case["id"]] = c
    cres = vlib.run_cli(cases, timeout=180, nthreads=6)
    listed = 0
    for case in cases:
        c = meta[case["id"]]
        r = cres[case["id"]]
        chk.evaluations += 1
        chk.nontrivial_count += c["depth"] > 1
        small = dict(case, files={k: v[:120] + "...(%d bytes)" % len(v) for k, v in case["files"].items()})
        crashed = r["outcome"] in ("panic", "hang", "other", "abort") or r["exit"] not in (0, 1, 2)
        if crashed:
            scanner_abort = "ts_parser__external_scanner_serialize" in (r.get("stderr") or "")
            chk.violation("deep input %s: %s (exit %s)%s" % (case["id"], r["outcome"], r["exit"],
                                                            " in tree-sitter's scanner-state assertion" if scanner_abort else ""),
                          {"abstract": c, "regenerate": "tools/props/c04.py deep_text(%r, %d)" % (c["construct"], c["depth"]),
                           "concrete_excerpt": small, "stderr": (r.get("stderr") or "")[-400:]},
                          explained_by=("DP1",) if (c["ascoded"] == "abort" and scanner_abort) else ())
        elif c["ascoded"] == "abort":
            chk.drift += 1        # the as-coded model predicted the abort and the real run survived
        elif case["args"] == ["list"] and r["outcome"] == "ok":
            listed += "ok" in [b["name"] for b in (r["list"] or {}).get(list(case["files"])[0], [])]
    chk.notes["deep_inputs"] = {"pairs": len(res.cases), "runs": len(cases), "list_runs_that_found_the_trailing_block": listed}
