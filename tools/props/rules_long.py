"""Impl -> spec direction for C06-C09: random long blocks are run through the real code with the
trace hooks on; for each run the block *as the code saw it* (content byte range and attributes from
the `block` hook event, diagnostics from the `join` event) is projected to the spec's line records
and checked by TLC against Rules!Contract (spec/trace/TraceRules.tla), which also re-runs the spec's
loop actions and evaluates the Rules invariants in every state."""
import json
import os

import vlib
from props import rules_common as rc

KEYS = ["a", "b", "ab", "B", "é", "ж", "zz", "日本", "a1", "x", "x9", "Ax", "10", "2", "9.5", "-3", "007", "a-b", "_"]
NUMS = ["2", "10", "9.5", "-3", "-5", "-9", "-8", "0", "-0.5", "100", "7", "33.3", "-12", "-30", "15", "51"]


def cps(s):
    return [ord(c) for c in s]


def gen_case(rng, kind):
    n = rng.randint(3, 40)
    lines = []
    if kind == "sorted":
        fmt = rng.choice(["lex", "lex", "num"])
        pat = rng.choice(["none", "group", "plain"])
        d, sp = rng.choice([("asc", ""), ("asc", "asc"), ("asc", "Asc"), ("desc", "desc"), ("desc", "DESC")])
        pool = NUMS if fmt == "num" else KEYS
        ks = [rng.choice(pool) for _ in range(n)]
        form = {"none": "k", "group": "id", "plain": "kv"}[pat]
        if fmt == "num":
            if pat == "plain":
                pat, form = "group", "id"
            ks.sort(key=float, reverse=(d == "desc"))
        else:
            if pat == "plain":
                ks.sort(key=lambda k: cps("k=" + k), reverse=(d == "desc"))
            else:
                ks.sort(key=cps, reverse=(d == "desc"))
        if rng.random() < 0.5:
            a, b = rng.randrange(n), rng.randrange(n)
            ks[a], ks[b] = ks[b], ks[a]
        for k in ks:
            r = rng.random()
            if r < 0.1:
                lines.append({"form": "blank", "key": [], "indent": 0, "trail": 0, "sfx": 0})
            if r > 0.9 and pat != "none":
                lines.append({"form": "k", "key": cps(rng.choice(KEYS)), "indent": 0, "trail": 0, "sfx": 0})
            lines.append({"form": form, "key": cps(k), "indent": rng.choice([0, 0, 2, 4]), "trail": rng.choice([0, 0, 1]),
                          "sfx": rng.choice([0, 0, 1]) if form != "k" or fmt == "lex" else 0})
        if fmt == "num" and pat == "none":
            for l in lines:
                l["sfx"] = 0
        cfg = {"kind": "sorted", "dir": d, "sp": sp, "pat": pat, "fmt": fmt, "lp": "any", "op": "==", "n": 0}
    elif kind == "unique":
        pat = rng.choice(["none", "group", "plain"])
        form = {"none": "k", "group": "id", "plain": "kv"}[pat]
        pool = KEYS[:]
        rng.shuffle(pool)
        ks = [pool[i % len(pool)] for i in range(min(n, len(pool)))]
        if rng.random() < 0.5:
            ks.insert(rng.randrange(len(ks) + 1), rng.choice(ks))
        for k in ks:
            if rng.random() < 0.1:
                lines.append({"form": "ws", "key": [], "indent": 3, "trail": 0, "sfx": 0})
            lines.append({"form": rng.choice([form, form, form, "k"]), "key": cps(k), "indent": rng.choice([0, 2]),
                          "trail": rng.choice([0, 2]), "sfx": rng.choice([0, 1, 2])})
        cfg = {"kind": "unique", "dir": "asc", "sp": "", "pat": pat, "fmt": "lex", "lp": "any", "op": "==", "n": 0}
    elif kind == "pattern":
        lp = rng.choice(["lower", "digit", "startx", "min3"])
        good = {"lower": ["a", "b", "ab", "zz", "x"], "digit": ["a1", "x9", "10", "2", "007"], "startx": ["x", "x9"], "min3": ["日本語", "a-b", "007", "abc"]}[lp]
        for _ in range(n):
            k = rng.choice(good) if rng.random() < 0.97 else rng.choice(KEYS)
            if rng.random() < 0.1:
                lines.append({"form": "blank", "key": [], "indent": 0, "trail": 0, "sfx": 0})
            lines.append({"form": "k", "key": cps(k), "indent": rng.choice([0, 1, 4]), "trail": rng.choice([0, 1]), "sfx": 0})
        cfg = {"kind": "pattern", "dir": "asc", "sp": "", "pat": "none", "fmt": "lex", "lp": lp, "op": "==", "n": 0}
    else:
        for _ in range(n):
            r = rng.random()
            if r < 0.25:
                lines.append({"form": rng.choice(["blank", "ws"]), "key": [], "indent": 2, "trail": 0, "sfx": 0})
            else:
                lines.append({"form": "k", "key": cps(rng.choice(KEYS)), "indent": rng.choice([0, 2]), "trail": 0, "sfx": 0})
        nb = sum(1 for l in lines if l["form"] == "k")
        cfg = {"kind": "count", "dir": "asc", "sp": rng.choice(["0", "1", "2"]), "pat": "none", "fmt": "lex", "lp": "any",
               "op": rng.choice(["<", "<=", "==", ">=", ">"]), "n": max(0, nb + rng.choice([-1, 0, 0, 1, 10 ** 6]))}
    return {"block": lines, "cfg": cfg}


def _L(form, key, indent=0, trail=0, sfx=0):
    return {"form": form, "key": cps(key), "indent": indent, "trail": trail, "sfx": sfx}


def sweep_cases(kind, quick):
    """Structured long blocks: the interesting position sweeps over the block -- the first repeated key is the k-th of
    m distinct ones, the first inversion / failing line / the bound sits at position p of m -- for m around the sizes
    at which implementations change strategy (4, 8, 16, 32, 64)."""
    sizes = [3, 4, 5, 7, 8, 9, 10, 15, 16, 17, 31, 32, 33, 63, 64, 65] if quick else list(range(2, 71))
    keys = [a + b for a in "abcdefghij" for b in "klmnopqrst"]          # 100 distinct two-letter keys, ascending
    out = []
    for m in sizes:
        ps = sorted({1, 2, m // 2, m - 1, m}) if quick else range(1, m + 1)
        for p_ in ps:
            if p_ < 1 or p_ > m:
                continue
            if kind == "unique":
                for pat, form in (("none", "k"), ("group", "id")):
                    ls = [_L(form, keys[i]) for i in range(m)] + [_L(form, keys[p_ - 1], sfx=1 if form != "k" else 0)]
                    if m % 2:
                        ls += [_L(form, keys[m]), _L(form, keys[0], indent=2)]        # a later duplicate must not win
                    out.append({"block": ls, "cfg": {"kind": "unique", "dir": "asc", "sp": "", "pat": pat, "fmt": "lex", "lp": "any", "op": "==", "n": 0}})
            elif kind == "sorted":
                ks = keys[:m + 1]
                if p_ < len(ks):
                    ks[p_ - 1], ks[p_] = ks[p_], ks[p_ - 1]           # one adjacent inversion at position p
                out.append({"block": [_L("k", k) for k in ks],
                            "cfg": {"kind": "sorted", "dir": "asc", "sp": "", "pat": "none", "fmt": "lex", "lp": "any", "op": "==", "n": 0}})
            elif kind == "pattern":
                ls = [_L("k", keys[i]) for i in range(m)]
                ls[p_ - 1] = _L("k", "A1")                              # the only failing line
                out.append({"block": ls, "cfg": {"kind": "pattern", "dir": "asc", "sp": "", "pat": "none", "fmt": "lex", "lp": "lower", "op": "==", "n": 0}})
            else:
                ls = [_L("k", keys[i]) for i in range(m)]
                for op, n_ in (("<", m), ("<=", m - 1), ("==", m + 1), (">=", m + 1), (">", m), ("==", m)):
                    out.append({"block": ls, "cfg": {"kind": "count", "dir": "asc", "sp": "0", "pat": "none", "fmt": "lex", "lp": "any", "op": op, "n": n_}})
                break
    return out


def project_line(text):
    """Concrete line -> abstract record (inverse of rules_common.line_text)."""
    if text == "":
        return {"form": "blank", "key": [], "indent": 0, "trail": 0, "sfx": 0}
    if text.strip(" \t") == "":
        return {"form": "ws", "key": [], "indent": len(text), "trail": 0, "sfx": 0}
    if text.strip() == "":
        return {"form": "uws", "key": [], "indent": len(text) // 2, "trail": 0, "sfx": 0}
    indent = len(text) - len(text.lstrip(" "))
    trail = len(text) - len(text.rstrip(" "))
    t = text.strip(" ")
    sfx = 0
    if len(t) > 3 and t[-3:-1] == " #" and t[-1] in "12":
        sfx = int(t[-1])
        t = t[:-3]
    form = "k"
    if t.startswith("id: "):
        form, t = "id", t[4:]
    elif t.startswith("k="):
        form, t = "kv", t[2:]
    return {"form": form, "key": cps(t), "indent": indent, "trail": trail, "sfx": sfx}


def project_cfg(attrs, kind):
    cfg = {"kind": kind, "dir": "asc", "sp": "", "pat": "none", "fmt": "lex", "lp": "any", "op": "==", "n": 0}
    if kind == "sorted":
        v = attrs.get("keep-sorted", "")
        cfg["sp"] = v
        cfg["dir"] = "asc" if v.strip() == "" else v.lower()
        p = attrs.get("keep-sorted-pattern", "")
        cfg["pat"] = {"": "none", rc.GROUP_RE: "group", rc.PLAIN_RE: "plain", rc.STAR_RE: "gstar", rc.ALT_RE: "galt", rc.ANCH_RE: "ganch"}[p]
        cfg["fmt"] = "num" if attrs.get("keep-sorted-format", "").strip().lower() == "numeric" else "lex"
    elif kind == "unique":
        cfg["pat"] = {"": "none", rc.GROUP_RE: "group", rc.PLAIN_RE: "plain", rc.STAR_RE: "gstar", rc.ALT_RE: "galt", rc.ANCH_RE: "ganch"}[attrs.get("keep-unique", "")]
    elif kind == "pattern":
        cfg["lp"] = {v: k for k, v in rc.LP.items()}[attrs["line-pattern"]]
    else:
        e = attrs["line-count"].strip()
        for op in ("<=", ">=", "==", "<", ">"):
            if e.startswith(op):
                cfg["op"], cfg["n"] = op, int(e[len(op):].strip())
                break
    return cfg


def run(chk, kind, n=300):
    rng = chk.rng
    tdir = vlib.subdir("trace-rules-" + kind)
    batch, texts = [], {}
    planned = sweep_cases(kind, n < 1000)
    for ci in range(n + len(planned)):
        case = gen_case(rng, kind) if ci < n else planned[ci - n]
        name, text, _ = rc.render(case, "line", ci % 4)
        cid = "long%d" % ci
        batch.append({"id": cid, "files": {name: text}, "diff": None, "args": [], "terminal": True})
        texts[cid] = (name, text, case)
    results = vlib.run_bwexec(batch, trace_dir=tdir)
    # read hook events, grouped per case
    per_case = {}
    for fn in sorted(os.listdir(tdir)):
        cur = None
        for line in open(os.path.join(tdir, fn), errors="replace"):
            ev = json.loads(line)
            if ev["ev"] == "case":
                cur = per_case.setdefault(ev["id"], [])
            elif cur is not None:
                cur.append(ev)
    events = []
    code = rc.CODE[kind]
    for cid, (name, text, case) in texts.items():
        res = results[cid]
        evs = per_case.get(cid, [])
        blocks = [e for e in evs if e["ev"] == "block" and any(a.startswith(code.split("=")[0]) for a in e["attrs"])]
        if res["outcome"] in ("panic", "hang", "abort"):
            chk.violation("crash on a long block: %s" % res.get("error"), {"concrete": batch[int(cid[4:])]})
            continue
        if len(blocks) != 1:
            raise vlib.ToolError("trace of %s has %d block events" % (cid, len(blocks)))
        b = blocks[0]
        content = text.encode()[b["bytes"][0]:b["bytes"][1]].decode()
        lines = content.split("\n")
        if lines and lines[-1] == "":
            lines.pop()
        lines = [l[:-1] if l.endswith("\r") else l for l in lines]
        if content == "":
            lines = []
        if res["outcome"] == "error":
            obs = {"v": "err", "at": 0, "actual": 0}
        else:
            diags = [d for ds in (res["report"] or {}).values() for d in ds]
            if not diags:
                obs = {"v": "ok", "at": 0, "actual": 0}
            else:
                d = diags[0]
                obs = {"v": "viol" if len(diags) == 1 and d["code"] == code else "multi",
                       "at": d["range"]["start"]["line"] - b["content"][0] + 1,
                       "actual": (d.get("data") or {}).get("actual", 0)}
                if kind == "count":
                    obs["at"] = 0
        events.append({"id": cid, "block": [project_line(l) for l in lines], "cfg": project_cfg(b["attrs"], kind),
                       "obs": obs})
    tpath = os.path.join(tdir, "obs.ndjson")
    with open(tpath, "w") as f:
        for e in events:
            f.write(json.dumps(e) + "\n")
    res = vlib.run_trace_spec("TraceRules", tpath, timeout=900)
    if not res.ok and not res.cases:
        raise vlib.ToolError("TraceRules rejected the trace without a diagnosis:\n" + (res.violation or ""))
    for m in res.cases:
        cid = m["id"]
        name, text, case = texts[cid]
        chk.violation("long block: contract %s, observed %s" % (json.dumps(m["expect"]), json.dumps(m["obs"])),
                      {"concrete": batch[int(cid[4:])], "expected": m["expect"], "observed": m["obs"]})
    if not res.ok and res.cases and not chk.violations:
        raise vlib.ToolError("TraceRules failed:\n" + (res.violation or ""))
    chk.traces += len(events)
    chk.evaluations += len(events)
    chk.nontrivial_count += len(events)
    chk.states += res.distinct
    chk.transitions += res.generated
    chk.notes.setdefault("trace_runs", []).append({"spec": "TraceRules", "events": len(events),
                                                   "states": res.distinct, "wall_s": round(res.wall, 1),
                                                   "disagreements": len(res.cases)})
    if events:
        chk.sample({"trace_event": events[0]})
