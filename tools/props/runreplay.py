"""Replay of Run.tla scenarios (C11, C13, C18, C19, C20) against the real CLI.

A scenario is an outcome assignment emitted by TLC from MC_Run (what each sync validator returns,
what each check-lua / check-ai block task returns) together with the verdict every interleaving
must produce (Run!Deterministic).  The concretiser builds a repository whose blocks realise the
assignment, the CLI is run with the trace hooks on, the observable result is compared with the
TLC verdict, and the recorded trace is validated by TraceRun.tla / TraceDetect.tla.
"""
import json
import os

import vlib
import runtrace
from fake_openai import FakeOpenAI

SYNC_KINDS = ["keep-sorted", "keep-unique", "line-pattern", "line-count"]
CODE_OF = {"s1": "keep-sorted", "s2": "keep-unique", "s3": "line-pattern", "s4": "line-count",
           "lua": "check-lua", "ai": "check-ai"}
SEV_ATTR = {1: "", 2: ' severity="warning"', 3: ' severity="Info"', 4: ' severity="HINT"', 5: ' severity="ERROR"', 6: ' severity="WaRnInG"'}
SEV_NUM = {1: 1, 2: 2, 3: 3, 4: 4, 5: 1, 6: 2}
FAULTS = ["http400json", "http401plain", "http404plain", "badjson", "nochoices", "nullcontent", "closemid", "refuse"]
OK_SPELLINGS = ["OK", "ok", "Ok.", "OK."]


def sync_block(kind, mode, sev, name):
    sa = SEV_ATTR[sev]
    if kind == "keep-sorted":
        attr = 'keep-sorted="sideways"' if mode == "err" else "keep-sorted"
        body = ["b", "a"] if mode == "viol" else ["a", "b"]
    elif kind == "keep-unique":
        attr = 'keep-unique="("' if mode == "err" else "keep-unique"
        body = ["a", "a"] if mode == "viol" else ["a", "b"]
    elif kind == "line-pattern":
        attr = 'line-pattern="("' if mode == "err" else 'line-pattern="^[a-z]+$"'
        body = ["ABC"] if mode == "viol" else ["abc"]
    else:
        attr = 'line-count="=2"' if mode == "err" else ('line-count="<1"' if mode == "viol" else 'line-count="<=2"')
        body = ["x"]
    return ['# <block name="%s" %s%s>' % (name, attr, sa)] + body + ["# </block>"]


LUA = {
    "nil": "function validate(ctx, content)\n%s  return nil\nend\n",
    "str": "function validate(ctx, content)\n%s  return \"lua says no\"\nend\n",
    "err": "function validate(ctx, content)\n%s  error(\"boom\")\nend\n",
    "syntax": "function validate(ctx, content\n%s  return nil\nend\n",
    "novalidate": "function check(ctx, content)\n%s  return nil\nend\n",
    "nonstring": "function validate(ctx, content)\n%s  return 42\nend\n",
    "table": "function validate(ctx, content)\n%s  return {1}\nend\n",
}


def busy(n):
    return "  local x = 0\n  for i = 1, %d do x = x + i %% 7 end\n" % n if n else ""


class Builder:
    """Accumulates files of one scenario."""

    def __init__(self, root_dir):
        self.files = {"f1.py": [], "f2.py": []}
        self.dir = root_dir
        self.nscripts = 0
        self.ai = {}      # key -> behaviour
        self.blocks = []  # (file, name, line)

    def add(self, f, lines, name):
        fl = self.files[f + ".py" if not f.endswith(".py") else f]
        self.blocks.append((f, name, len(fl) + 1))
        fl.extend(lines)
        fl.append("pad_%d = 0" % len(fl))

    def lua_script(self, text):
        self.nscripts += 1
        p = os.path.join(self.dir, "s%d.lua" % self.nscripts)
        with open(p, "w") as fo:
            fo.write(text)
        return p

    def texts(self):
        return {f: "\n".join(ls) + "\n" for f, ls in self.files.items() if ls}


def concretize(scn, sid, workdir, fault_of=None, lua_err="err", delays=None, body=None, sevmix=0):
    """-> (case dict for vlib.run_cli_one, expected dict, ai behaviours)"""
    b = Builder(workdir)
    exp = []   # expected diagnostics (file, code, sev)
    cnt = [0]

    def spell(sev):
        # the model has error / non-error; the concretiser rotates the non-error (and error) spellings
        cnt[0] += 1
        if not sevmix:
            return sev
        if sev == 1:
            return (1, 5)[(sevmix + cnt[0]) % 2]
        return (2, 3, 4, 6)[(sevmix + cnt[0]) % 4]
    for k, r in enumerate(scn["sync"]):
        kind = SYNC_KINDS[k]
        name = "s%d" % (k + 1)
        if r["st"] == "err":
            b.add("f1", sync_block(kind, "err", 1, name + "e"), name + "e")
        elif r["st"] == "pending" or (not r["f1"] and not r["f2"]):
            b.add("f1", sync_block(kind, "ok", 1, name + "o"), name + "o")
        else:
            for f in ("f1", "f2"):
                for d in r[f]:
                    sv = spell(d["sev"])
                    b.add(f, sync_block(kind, "viol", sv, name + f), name + f)
                    exp.append((f + ".py", CODE_OF[name], SEV_NUM[sv]))
    ai_beh = {}
    for a, tasks in scn["tasks"].items():
        for t in tasks:
            uid = "%s%d" % (a[0], t["b"])
            ret = t["ret"]
            k = ret["k"]
            sev = spell(ret.get("sev", 1))
            content = (body or {}).get(t["b"], "payload %s" % uid)
            if a == "lua":
                cls = {"nil": "nil", "pending": "nil", "str": "str", "err": lua_err}[k]
                script = b.lua_script(LUA[cls] % busy((delays or {}).get(t["b"], 0)))
                b.add(t["file"], ['# <block name="%s" check-lua="%s"%s>' % (uid, script, SEV_ATTR[sev]), content, "# </block>"], uid)
                if k == "str":
                    exp.append((t["file"] + ".py", "check-lua", SEV_NUM[sev]))
            else:
                key = "%s-%s" % (sid, uid)
                if k in ("ok", "pending", "nokey"):
                    ai_beh[key] = {"reply": OK_SPELLINGS[(t["b"] + len(sid)) % len(OK_SPELLINGS)]}
                elif k == "text":
                    ai_beh[key] = {"reply": "not good: " + uid}
                    exp.append((t["file"] + ".py", "check-ai", SEV_NUM[sev]))
                else:
                    ai_beh[key] = {"fault": (fault_of or (lambda b_: FAULTS[b_ % 7]))(t["b"])}
                b.add(t["file"], ['# <block name="%s" check-ai="must be fine [[%s]]"%s>' % (uid, key, SEV_ATTR[sev]), content,
                                  "# </block>"], uid)
    case = {"id": sid, "files": b.texts(), "diff": None, "args": [], "terminal": True, "env": {}}
    expected = {"final": scn["final"], "diags": sorted(exp), "exit": scn["exit"]}
    if scn["final"] == "report":
        expected["exit"] = 1 if any(e[2] == 1 for e in exp) else 0
    return case, expected, ai_beh


def observed_diags(res):
    out = []
    for f, ds in (res.get("report") or {}).items():
        for d in ds:
            out.append((f, d["code"], d["severity"]))
    return sorted(out)


def judge(chk, sid, scn, case, expected, res, label=""):
    """Compares the CLI result with the TLC verdict.  Returns True when it agrees."""
    if res["outcome"] in ("panic", "hang", "abort", "garbled", "other"):
        chk.violation("%srun crashed or produced garbage (%s): %s" % (label, res["outcome"], (res.get("error") or res.get("stderr") or "")[:300]),
                      {"scenario": scn, "concrete": case, "expected": expected})
        return False
    if expected["final"] == "error":
        if res["outcome"] != "error" or res["exit"] == 0:
            chk.violation("%ssome validator fails in this scenario, but the run ended with exit=%s and %s" % (
                label, res["exit"], "a report" if res["outcome"] == "ok" else res["outcome"]),
                {"scenario": scn, "concrete": case, "expected": expected,
                 "observed": {k: res.get(k) for k in ("outcome", "exit", "report", "stderr")}})
            return False
        return True
    if res["outcome"] != "ok":
        chk.violation("%sno validator fails in this scenario, but the run failed: %s" % (label, (res.get("error") or "")[:300]),
                      {"scenario": scn, "concrete": case, "expected": expected})
        return False
    obs = observed_diags(res)
    if obs != expected["diags"]:
        chk.violation("%sreport differs from the union of the validators' results: expected %s, observed %s" % (
            label, expected["diags"], obs), {"scenario": scn, "concrete": case, "expected": expected,
                                             "observed": {k: res.get(k) for k in ("outcome", "exit", "report")}})
        return False
    if res["exit"] != expected["exit"]:
        chk.violation("%sexit status %s, expected %s" % (label, res["exit"], expected["exit"]),
                      {"scenario": scn, "concrete": case, "expected": expected,
                       "observed": {k: res.get(k) for k in ("outcome", "exit", "report")}})
        return False
    if not expected["diags"] and (res.get("stderr") or "").strip():
        chk.violation("%snothing to report but stderr is not empty" % label, {"scenario": scn, "concrete": case,
                                                                               "stderr": res.get("stderr")})
        return False
    return True


def gen_scenarios(chk, consts, what):
    """Runs TLC on MC_Run with the emission config; returns de-duplicated complete scenarios."""
    from props import rules_common as rc
    cfg = rc.set_consts("MC_RunEmit", **consts)
    seen = {}

    def on(c):
        k = json.dumps([c["sync"], c["tasks"], c["haskey"]], sort_keys=True)
        if k not in seen:
            seen[k] = c
    res = vlib.run_tlc("MC_Run", cfg_text=cfg, timeout=3000, heap="16g", keep_cases=False, on_case=on)
    chk.add_tlc(res, "MC_Run emit %s %s" % (what, consts))
    # replace pending components by benign ones and de-duplicate again
    out = {}
    for c in seen.values():
        k = json.dumps([[("ok" if s["st"] == "pending" else s["st"], s["f1"], s["f2"]) for s in c["sync"]],
                        {a: [("nil" if t["ret"]["k"] == "pending" else t["ret"]) for t in ts] for a, ts in c["tasks"].items()},
                        c["haskey"]], sort_keys=True, default=str)
        if k not in out or c["final"] == "report":
            out[k] = c
    return list(out.values())


def check_invariants(chk, consts, what, invariants=None):
    """Runs TLC on MC_Run (all invariants, every interleaving) with the given constants."""
    from props import rules_common as rc
    cfg = rc.set_consts("MC_Run", **consts)
    res = vlib.run_tlc("MC_Run", cfg_text=cfg, timeout=3000, heap="16g", coverage=True)
    if res.ok:
        dead = [a for a in ("SpawnSync", "FinishSync", "JoinSync", "MainJoinSync", "MainJoinAsync")
                if res.coverage.get(a, 1) == 0]
        if dead:
            raise vlib.ToolError("vacuous model: actions never taken: %s" % dead)
    chk.add_tlc(res, "MC_Run invariants %s %s" % (what, consts))
    chk.notes.setdefault("action_coverage", {}).update(res.coverage)


def replay(chk, scenarios, label, trace_sample=100, extra_env=None, fault_of=None, lua_err_of=None, delays_of=None,
           body_of=None, post=None, haskey=True, sevmix=False):
    """Concretise and run every scenario through the CLI.  Returns {sid: (scn, case, expected, res, events)}."""
    fake = FakeOpenAI()
    root = vlib.subdir("run-" + label)
    tdir = vlib.subdir("run-traces-" + label)
    items = {}
    cases = []
    try:
        for i, scn in enumerate(scenarios):
            sid = "%s%d" % (label, i)
            wd = os.path.join(root, sid)
            os.makedirs(wd, exist_ok=True)
            case, expected, ai_beh = concretize(
                scn, sid, wd, fault_of=((lambda b_, _i=i: fault_of(b_ + _i)) if fault_of else None), lua_err=(lua_err_of(i) if lua_err_of else "err"),
                delays=(delays_of(i, scn) if delays_of else None), body=(body_of(i, scn) if body_of else None),
                sevmix=(i + 1 if sevmix else 0))
            fake.behaviour.update({k: v for k, v in ai_beh.items() if v.get("fault") != "refuse"})
            refuse = any(v.get("fault") == "refuse" for v in ai_beh.values())
            env = {"BLOCKWATCH_AI_MODEL": "test-model", "BLOCKWATCH_LUA_MODE": "sandboxed"}
            if refuse:
                from fake_openai import closed_port_url
                env["BLOCKWATCH_AI_API_URL"] = closed_port_url()
            else:
                env["BLOCKWATCH_AI_API_URL"] = fake.url
            if scn.get("haskey", haskey):
                env["BLOCKWATCH_AI_API_KEY"] = "sk-test-" + sid
            env.update(extra_env(i) if extra_env else {})
            case["env"] = env
            items[sid] = [scn, case, expected, None, None, ai_beh]
            cases.append(case)
        results = vlib.run_cli(cases, trace_dir=tdir, timeout=60)
        for sid, it in items.items():
            it[3] = results[sid]
            it[4] = runtrace.read_events(os.path.join(tdir, "cli-%s.ndjson" % sid))
            it.append(fake.requests_for)   # accessor
        # per-key request records
        reqs = {}
        with fake.lock:
            for r in fake.requests:
                reqs.setdefault(r.get("key"), []).append(r)
    finally:
        fake.close()
    for sid, it in items.items():
        scn, case, expected, res, events, ai_beh = it[:6]
        chk.count(key=None, nontrivial=(len(expected["diags"]) > 0 or expected["final"] == "error"))
        ok = judge(chk, sid, scn, case, expected, res)
        if post:
            post(chk, sid, scn, case, expected, res, events, ai_beh, reqs)
    # trace validation on a seeded sample
    sids = sorted(items)
    chk.rng.shuffle(sids)
    run_tr, det_tr, sys_tr = {}, {}, {}
    for sid in sids[:trace_sample]:
        scn, case, expected, res, events = items[sid][:5]
        outcome = "error" if res["outcome"] == "error" else "ok"
        t = runtrace.run_trace(events, res["exit"], outcome, bool(res.get("report")), "BLOCKWATCH_AI_API_KEY" in case["env"])
        if t:
            run_tr[sid] = t
    # every recorded run (not a sample) against the system specification: many runs per TLC process
    for sid in sids:
        scn, case, expected, res, events = items[sid][:5]
        if res["outcome"] in ("ok", "error", "reject"):
            sys_tr[sid] = runtrace.system_trace(events, res, case["args"], False)
        d = runtrace.detect_trace(events)
        if d and len(det_tr) < max(300, trace_sample * 10):
            det_tr[sid] = d            # recorded detector loops, many per TLC process (all of them in the thorough tier)
    for module, trs in (("TraceRun", run_tr), ("TraceDetect", det_tr), ("TraceSystem", sys_tr)):
        vres = runtrace.validate_system(trs) if module == "TraceSystem" else (
            runtrace.validate_detect(trs) if module == "TraceDetect" else runtrace.validate_many(module, trs))
        for sid, (acc, diag, states, rc_) in vres.items():
            chk.traces += 1
            chk.states += states
            chk.transitions += states
            if not acc:
                if rc_ not in (10, 12, 13) and "TRACE" not in (diag or "") and "Invariant" not in (diag or ""):
                    raise vlib.ToolError("%s failed on trace %s (rc=%s):\n%s" % (module, sid, rc_, diag))
                scn, case, expected, res, events = items[sid][:5]
                chk.violation("%s rejects the recorded run: %s" % (module, (diag or "")[:400]),
                              {"scenario": scn, "concrete": case, "trace": trs[sid],
                               "observed": {k: res.get(k) for k in ("outcome", "exit", "report")}})
    chk.notes.setdefault("traces", []).append({"label": label, "TraceRun": len(run_tr), "TraceDetect": len(det_tr), "TraceSystem": len(sys_tr)})
    if items:
        sid = sorted(items)[len(items) // 2]
        chk.sample({"scenario": items[sid][0], "files": items[sid][1]["files"], "expected": items[sid][2]})
    return items
