"""C02 diff mode validates exactly the touched blocks: DiffTouch.tla selection contract, same
diagnostics as a full scan for selected blocks, path arguments add whole files."""
import vlib
from props import rules_common as rc
from props import difftouch as dt

LEVEL = "model_checking"


def run(chk):
    quick = chk.tier == "quick"
    chk.rule = ("TLC enumerates every edit script over {K,D,I,M} of <= MaxOps ops x every placement of 1..MaxBlocks "
                "blocks x comment layout x character-level kind of each tag-line edit (attribute / comment text / "
                "end-tag comment / same-line content / full rewrite); every block carries an always-violated rule so "
                "selection is visible in the report; non-trivial = some block with a MUST/MUSTNOT verdict")
    chk.exhaustive = True
    # exhaustive bounds: quick (5 ops, 1 block); thorough (6 ops, 1 block) and (5 ops, 2 blocks) -- (6, 2) is beyond
    # what finishes (measured: (6,1) 1.4 M states / 155 k scripts, (5,2) 2.5 M states / 257 k scripts)
    for (mo, mb) in ([(5, 1)] if quick else [(6, 1), (5, 2)]):
        cfg = rc.set_consts("MC_C01", MaxOps=mo, MaxBlocks=mb)
        res = vlib.run_tlc("MC_C01", cfg_text=cfg, timeout=6000, heap="16g")
        chk.add_tlc(res, "MC_C01 (DiffTouch) MaxOps=%d MaxBlocks=%d" % (mo, mb))
        dt.replay(chk, res.cases, "C02", cli_sample=200 if quick else 1500)
        res.cases = None
    for sparse in ("FALSE", "TRUE"):
        cfgs = rc.set_consts("MC_C01sim", GenLen=10 if quick else 14, GenSparse=sparse, MaxBlocks=1)   # (two blocks: GenPlace has too many successors for -simulate)
        rs = vlib.run_tlc("MC_C01", cfg_text=cfgs, timeout=3000, simulate=40 if quick else 600, depth=90, seed=(chk.seed + 1) % 100000,
                          workers=4, heap="8g")
        if not rs.ok:
            raise vlib.ToolError("DiffTouch simulation failed: %s" % (rs.violation or "")[:500])
        chk.notes.setdefault("tlc_runs", []).append({"what": "MC_C01sim -simulate GenSparse=%s" % sparse, "behaviours": len(rs.cases),
                                                     "wall_s": round(rs.wall, 1)})
        dt.replay(chk, rs.cases, "C02", cli_sample=0)
    from props import diff_long
    diff_long.run(chk, n=25 if quick else 250)
