"""C02 diff mode validates exactly the touched blocks: DiffTouch.tla selection contract, same
diagnostics as a full scan for selected blocks, path arguments add whole files."""
import vlib
from props import rules_common as rc
from props import difftouch as dt

LEVEL = "model_checking"


def run(chk):
    quick = chk.tier == "quick"
    chk.rule = ("TLC enumerates every edit script over {K,D,I,M} of <= MaxOps ops x every placement of 1..MaxBlocks "
                "blocks x comment layout x character-level kind of each tag-line edit (attribute / comment text / "
                "end-tag comment / same-line content / full rewrite); every block carries an always-violated rule so "
                "selection is visible in the report; non-trivial = some block with a MUST/MUSTNOT verdict")
    chk.exhaustive = True
    cfg = rc.set_consts("MC_C01", MaxOps=5 if quick else 6, MaxBlocks=1 if quick else 2)
    res = vlib.run_tlc("MC_C01", cfg_text=cfg, timeout=3000, heap="16g")
    chk.add_tlc(res, "MC_C01 (DiffTouch)")
    dt.replay(chk, res.cases, "C02", cli_sample=200 if quick else 2000)
    from props import diff_long
    diff_long.run(chk, n=25 if quick else 250)
