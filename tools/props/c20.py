"""C20 same input, same verdict.  At specification level determinism is an invariant of the
nondeterministic specs (Run!Deterministic over all interleavings, Detect!DetectComplete over all
visiting orders).  At implementation level generated repositories are run repeatedly while
everything the statement lists is varied: hash seeds (fresh per process), runtime workers, CPU
affinity, file creation order, order of the diff's file sections, start directory."""
import itertools
import json
import os

import vlib
import runtrace
from fake_openai import FakeOpenAI
from props import rules_common as rc
from props import runreplay as rr

LEVEL = "model_checking"


def verdict(r):
    if r["outcome"] == "ok":
        ds = sorted(json.dumps([f, d["code"], d["range"], d["severity"], d["message"]], sort_keys=True)
                    for f, dl in (r.get("report") or {}).items() for d in dl)
        return ("ok", r["exit"], tuple(ds), json.dumps(r.get("list"), sort_keys=True))
    return (r["outcome"], r["exit"])


def variants(rng, n):
    out = []
    for k in range(n):
        out.append({"env": {"TOKIO_WORKER_THREADS": str([1, 2, 8, 16][k % 4])},
                    "taskset": "0" if k % 3 == 1 else None,
                    "cwd": ["", "sub", "sub/dir"][k % 3],
                    "rev_files": k % 2 == 1,
                    "perm": k})
    return out


def diff_sections(rng):
    """A multi-file repository + the sections of its diff (one per file), incl. a deleted and a new file."""
    files = {
        "a.py": "x = 1\n# <block name=\"alpha\" keep-sorted>\nb\na\n# </block>\n",
        "sub/b.py": "# <block name=\"beta\" keep-unique>\nu\nu\n# </block>\ny = 2\n",
        "sub/dir/c.py": "# <block name=\"gamma\" affects=\"a.py:nothere, sub/b.py:beta\">\nchanged\n# </block>\n",
        "new.py": "# <block name=\"delta\" line-count=\"<2\">\nn1\nn2\n# </block>\n",
        # namesakes of the diff's files below the directories the runs are started from (healthy, not in the diff)
        "sub/a.py": "# <block name=\"alpha2\" keep-sorted>\na\nb\n# </block>\n",
        "sub/dir/a.py": "# <block name=\"alpha3\" keep-sorted>\na\nb\n# </block>\n",
        "sub/new.py": "# <block name=\"delta2\" line-count=\"<9\">\nn1\n# </block>\n",
        "sub/dir/new.py": "# <block name=\"delta3\" line-count=\"<9\">\nn1\n# </block>\n",
    }
    sec = {
        "a.py": "diff --git a/a.py b/a.py\nindex 1..2 100644\n--- a/a.py\n+++ b/a.py\n@@ -3 +3 @@\n-c\n+b\n",
        "sub/b.py": "diff --git a/sub/b.py b/sub/b.py\nindex 1..2 100644\n--- a/sub/b.py\n+++ b/sub/b.py\n@@ -2,0 +3 @@\n+u\n",
        "sub/dir/c.py": "diff --git a/sub/dir/c.py b/sub/dir/c.py\nindex 1..2 100644\n--- a/sub/dir/c.py\n+++ b/sub/dir/c.py\n@@ -2 +2 @@\n-old\n+changed\n",
        "new.py": "diff --git a/new.py b/new.py\nnew file mode 100644\nindex 0000000..2222222\n--- /dev/null\n+++ b/new.py\n@@ -0,0 +1,4 @@\n"
                  "+# <block name=\"delta\" line-count=\"<2\">\n+n1\n+n2\n+# </block>\n",
        "legacy.py": "diff --git a/legacy.py b/legacy.py\ndeleted file mode 100644\nindex 1111111..0000000\n--- a/legacy.py\n+++ /dev/null\n@@ -1,3 +0,0 @@\n"
                     "-# <block name=\"old\">\n-gone\n-# </block>\n",
    }
    return files, sec


def run(chk):
    quick = chk.tier == "quick"
    chk.rule = ("TLC checks Run!Deterministic over every interleaving and Detect!DetectComplete over every visiting order; "
                "generated repositories (Run scenarios with sync rules, Lua scripts and AI blocks; a multi-file diff with "
                "modified, new and deleted files; blocks sharing one stateful Lua script) are each run R times under varied "
                "runtime workers, CPU pinning, start directory, file creation order and diff section order; all runs of one "
                "input must agree on exit status and on the diagnostics as a multiset; non-trivial = every repeated input")
    rr.check_invariants(chk, dict(NSync=2, NLua=2, NAi=1), "C20")
    cfg = rc.set_consts("MC_Detect", NDets=3, NFiles=2, NBlocks=2)
    res = vlib.run_tlc("MC_Detect", cfg_text=cfg, timeout=3000, heap="16g")
    chk.add_tlc(res, "MC_Detect")
    rng = chk.rng
    R = 6 if quick else 24
    fake = FakeOpenAI()
    try:
        inputs = []   # (name, files, diff sections or None, args, env, expected verdict or None)
        # (1) Run scenarios
        scns = rr.gen_scenarios(chk, dict(NSync=2, NLua=2, NAi=1), "C20")
        rng.shuffle(scns)
        root = vlib.subdir("c20-scn")
        for i, scn in enumerate(scns[:30 if quick else 300]):
            wd = os.path.join(root, "s%d" % i)
            os.makedirs(wd, exist_ok=True)
            case, expected, ai_beh = rr.concretize(scn, "c20s%d" % i, wd, delays={101: (i % 3) * 300000, 102: ((i + 1) % 3) * 300000})
            fake.behaviour.update(ai_beh)
            files = dict(case["files"])
            # move f2 into a sub-directory so that the start directory can vary
            if "f2.py" in files:
                files["sub/dir/f2.py"] = files.pop("f2.py")
            inputs.append(("scn%d" % i, files, None, [], {"BLOCKWATCH_AI_API_URL": fake.url, "BLOCKWATCH_AI_API_KEY": "k"},
                           expected["final"]))
        # (2) multi-file diff, sections in every order
        files, sec = diff_sections(rng)
        inputs.append(("diff", files, sec, [], {}, "report"))
        inputs.append(("difflist", files, sec, ["list"], {}, "report"))
        inputs.append(("diffglob", files, sec, ["**/*.py"], {}, "report"))
        # (2b) files with the same last extension but different grammars: go.mod / go.sum are Go module files, any other
        #      *.mod / *.sum is nothing; whichever is met first must not decide for the other
        gm = '// <block name="req" keep-sorted>\nb\na\n// </block>\n'
        gfiles = {"go.mod": "module m\ngo 1.20\n" + gm, "legacy.mod": gm, "zz/go.sum": gm, "zz/check.sum": gm, "aa/other.mod": gm}
        gsec = {f: "diff --git a/%s b/%s\n--- a/%s\n+++ b/%s\n@@ -%d +%d @@\n-c\n+b\n" % (f, f, f, f, 4 if f == "go.mod" else 2, 4 if f == "go.mod" else 2)
                for f in gfiles}
        inputs.append(("gomod-scan", gfiles, None, [], {}, "report"))
        inputs.append(("gomod-diff", gfiles, gsec, [], {}, "report"))
        # (3) blocks sharing one stateful script
        wd = vlib.subdir("c20-lua")
        script = os.path.join(wd, "budget.lua")
        open(script, "w").write("function validate(ctx, content)\n  total = (total or 0) + 40\n  if total > 100 then return \"over budget: \" .. total end\n  return nil\nend\n")
        lfiles = {"svc_a.py": '# <block name="a" check-lua="%s">\n40\n# </block>\n' % script,
                  "sub/svc_b.py": '# <block name="b" check-lua="%s">\n40\n# </block>\n' % script,
                  "sub/dir/svc_c.py": '# <block name="c" check-lua="%s">\n40\n# </block>\n# <block name="d" check-lua="%s">\n40\n# </block>\n' % (script, script)}
        inputs.append(("lua-state", lfiles, None, [], {}, "report"))
        # (4) affects contexts in which one block name is modified in several files (Affects.tla cases): the index of
        #     modified named blocks is built from a hash map of files, whose order changes from process to process
        from props import affects_replay as ar
        ares = vlib.run_tlc("MC_Affects", timeout=1500, heap="8g")
        chk.add_tlc(ares, "MC_Affects")

        def shared_name(c):
            mods = {}
            for b in c["blocks"]:
                if b["mod"] == "content" and b["name"] != "-":
                    mods.setdefault(b["name"], set()).add(b["file"])
            return any(len(v) > 1 for v in mods.values()) and any(b["refs"] and b["mod"] == "content" for b in c["blocks"])
        acases = [c for c in ares.cases if shared_name(c)]
        rng.shuffle(acases)
        for i, c in enumerate(acases[:10 if quick else 120]):
            texts, adiff, _ = ar.concretize(c, i)
            inputs.append(("affects%d" % i, texts, {"all": adiff}, [], {}, "report"))
        chk.exhaustive = False
        cases, meta = [], {}
        for name, files, sec, args, env, exp in inputs:
            for k, v in enumerate(variants(rng, R)):
                fl = dict(files)
                for d in ("sub", "sub/dir"):
                    fl.setdefault(d + "/.keep", "")
                if v["rev_files"]:
                    fl = dict(reversed(list(fl.items())))
                diff = None
                if sec is not None:
                    order = list(sec)
                    perms = list(itertools.permutations(order))
                    order = perms[(k * 7) % len(perms)]
                    diff = "".join(sec[s] for s in order)
                cid = "%s-%d" % (name, k)
                e = dict(env)
                e.update(v["env"])
                cases.append({"id": cid, "files": fl, "diff": diff, "args": args, "terminal": sec is None, "env": e,
                              "taskset": v["taskset"], "cwd": v["cwd"] or None})
                meta[cid] = (name, exp)
        res = vlib.run_cli(cases, timeout=90)
        byname = {}
        for c in cases:
            byname.setdefault(meta[c["id"]][0], []).append(c)
        for name, cs in byname.items():
            vs = [verdict(res[c["id"]]) for c in cs]
            chk.count(nontrivial=True)
            exp = meta[cs[0]["id"]][1]
            bad = [c for c in cs if res[c["id"]]["outcome"] in ("panic", "hang", "abort", "garbled", "other")]
            if bad:
                chk.violation("crash or garbage on input %s" % name, {"concrete": bad[0], "observed": res[bad[0]["id"]].get("stderr")})
                continue
            if len(set(vs)) != 1:
                groups = {}
                for c, v in zip(cs, vs):
                    groups.setdefault(v, []).append({"env": c["env"], "taskset": c["taskset"], "cwd": c["cwd"]})
                chk.violation("%d runs of the same input (%s) gave %d different verdicts" % (len(cs), name, len(set(vs))),
                              {"concrete": cs[0], "verdicts": [{"verdict": str(v)[:600], "runs": g[:3], "n": len(g)} for v, g in groups.items()]})
                continue
            if exp == "error" and vs[0][0] != "error":
                chk.violation("input %s: some validator fails, but the runs ended with %s" % (name, vs[0][:2]), {"concrete": cs[0]})
            if exp == "report" and vs[0][0] != "ok":
                chk.violation("input %s: no validator fails, but the runs ended with %s" % (name, vs[0][:2]), {"concrete": cs[0]})
            if name == "lua-state" and (vs[0][1] != 0 or vs[0][2]):
                chk.violation("blocks sharing one script influenced each other: %s" % str(vs[0])[:300], {"concrete": cs[0]})
            if name.startswith("gomod"):
                fl_ = sorted({json.loads(d)[0] for d in vs[0][2]})
                if fl_ != ["go.mod", "zz/go.sum"]:
                    chk.violation("go.mod / go.sum next to other *.mod / *.sum files: diagnostics for %s" % fl_, {"concrete": cs[0]})
            if name == "diff":
                codes = sorted(json.loads(d)[1] for d in vs[0][2])
                if codes != ["affects", "keep-sorted", "keep-unique", "line-count"]:
                    chk.violation("multi-file diff: diagnostics %s" % codes, {"concrete": cs[0], "verdict": str(vs[0])[:800]})
        symlink_input(chk, R)
        chk.notes["inputs"] = len(byname) + 1
        chk.notes["runs_per_input"] = R
        chk.sample({"input": "diff", "sections": list(diff_sections(rng)[1]), "variation": variants(rng, 3)})
    finally:
        fake.close()


def symlink_input(chk, R):
    """A file reachable under several names (symbolic links inside the repository), the directory entries created
    in different orders, on tmpfs (directory order = creation order) when available: every run lists and reports the
    same set of paths -- every name, as files in scope are examined under the names they are found by."""
    import shutil
    import tempfile
    base = "/dev/shm" if os.access("/dev/shm", os.W_OK) else vlib.scratch()
    body = '# <block name="dup" keep-unique>\na\na\n# </block>\n'
    names = ["lib/real.py", "alias_top.py", "lib/alias_a.py", "zz/alias_z.py", "aa/alias_first.py"]
    verdicts = []
    for k in range(R):
        d = tempfile.mkdtemp(prefix="bwverif-sym-", dir=base)
        try:
            os.makedirs(os.path.join(d, ".git"))
            order = list(names)
            if k % 2:
                order.reverse()
            if k % 3 == 2:
                order = order[2:] + order[:2]
            for n in order:
                os.makedirs(os.path.dirname(os.path.join(d, n)) or d, exist_ok=True)
            # links may be created before their target exists
            for n in order:
                full = os.path.join(d, n)
                if n == "lib/real.py":
                    open(full, "w").write(body)
                else:
                    os.symlink(os.path.relpath(os.path.join(d, "lib/real.py"), os.path.dirname(full)), full)
            v = []
            for args in ([], ["list"]):
                r = vlib.run_cli_one({"id": "sym%d" % k, "premade": True, "files": {}, "diff": None, "args": args, "terminal": True,
                                      "env": {"TOKIO_WORKER_THREADS": str([1, 4, 16][k % 3])}}, workdir=d, timeout=60)
                if r["outcome"] != "ok":
                    chk.violation("symlinked repository: run failed: %s" % (r.get("error") or "")[:200], {"order": order, "args": args})
                    return
                v.append(sorted((r.get("list") if args else r.get("report") or {}).keys()))
            verdicts.append((tuple(v[0]), tuple(v[1]), tuple(order)))
        finally:
            shutil.rmtree(d, ignore_errors=True)
    chk.count(nontrivial=True)
    distinct = {(a, b) for a, b, _ in verdicts}
    if len(distinct) != 1:
        chk.violation("a repository with symbolic links gives %d different verdicts depending on the order its directory entries were created in" % len(distinct),
                      {"runs": [{"created_in_order": o, "reported": a, "listed": b} for a, b, o in verdicts[:6]]})
    elif list(verdicts[0][0]) != sorted(names) or list(verdicts[0][1]) != sorted(names):
        chk.violation("a file reachable under %d names is examined under %s only" % (len(names), list(verdicts[0][0])),
                      {"names": names, "reported": verdicts[0][0], "listed": verdicts[0][1]})
