"""C03 blocks are exactly the tag pairs written in comments, in every language.
Pairing.tla (stack machine vs well-nested matching, exhaustive over item sequences) + rendering of
every emitted file in the comment forms of each of the 39 suffixes with by-construction ground truth
for line, byte column and content bytes."""
import json
import os

import vlib
import langs
import runtrace
from props import rules_common as rc

LEVEL = "model_checking"


def expected_blocks(case, r):
    by = {(s["item"], s["pos"]): s for s in r["starts"]}
    text = r["text"].encode()
    out = []
    for b in case["blocks"]:
        s = by[(b["s_item"], b["s_pos"])]
        if b["s_item"] == b["e_item"]:
            content = b""
        else:
            content = text[r["comments"][b["s_item"]][1]:r["comments"][b["e_item"]][0]]
        out.append({"name": s["name"], "line": s["line"], "col": s["col"], "content": content.decode()})
    return out


def run_cases(chk, plan, label, crlf_ok=True):
    """plan: list of (case, ext, variant).  Returns number of files checked."""
    tdir = vlib.subdir("c03-trace-" + label)
    batch, meta = [], {}
    for i, (case, ext, variant) in enumerate(plan):
        crlf = crlf_ok and (variant % 5 == 3)
        mb = variant % 4 == 1
        bare = variant % 7 == 6 and ext not in ("md", "markdown")
        container = None
        if ext in ("md", "markdown") and variant % 4 == 2:
            container = ("li", "bq")[(variant // 4) % 2]
            crlf = False
        if ext in langs.TPL and variant % 4 == 2:
            container = "tpl"        # the whole file inside a string literal's interpolation: comments there are comments
        # attribute values holding comment-marker characters of every family must come back as written
        extra = {1: " c='#1 //2 ## 3'"} if (variant % 5 == 0 and not bare and ext not in ("md", "markdown")) else None
        # a quoted attribute value continuing on the next comment line; a file without a final line terminator
        ml = variant % 11 == 7 and not bare
        r = langs.render(case["items"], ext, variant, crlf=crlf, multibyte=mb, bare=bare,
                         endsp=(variant // 3) if variant % 3 == 0 else None, container=container, tag_attrs=extra,
                         mlattr=ml, no_eol=(variant % 9 == 5))
        r["extra"] = extra
        r["ml"] = ml
        cid = "%s%d" % (label, i)
        batch.append({"id": cid, "files": {r["name"]: r["text"]}, "diff": None, "args": ["list"], "terminal": True})
        meta[cid] = (case, ext, variant, r, crlf, mb, bare)
    results = vlib.run_bwexec(batch, trace_dir=tdir)
    blocks_by_case, all_events = {}, {}
    for fn in os.listdir(tdir):
        for cid, evs in runtrace.split_cases(runtrace.read_events(os.path.join(tdir, fn))).items():
            blocks_by_case[cid] = [e for e in evs if e["ev"] == "block"]
            all_events[cid] = evs
    # impl -> spec: the recorded push / pop events of the parses against Pairing.tla
    runtrace.validate_pairing(chk, all_events, limit=3000)
    for cid, (case, ext, variant, r, crlf, mb, bare) in meta.items():
        res = results[cid]
        conc = next(b for b in batch if b["id"] == cid) if len(batch) < 2000 else {"id": cid, "files": {r["name"]: r["text"]}, "args": ["list"], "terminal": True, "diff": None}
        chk.count(key=None, nontrivial=len(case["blocks"]) >= 1)
        key = "%s/%s" % (ext, ",".join(sorted(set(langs.forms(ext)))))
        detail = {"abstract": case, "ext": ext, "variant": variant, "crlf": crlf, "multibyte": mb, "concrete": conc,
                  "observed": {k: res.get(k) for k in ("outcome", "exit", "list", "error")}}
        if res["outcome"] in ("panic", "hang", "abort"):
            chk.violation("%s: crash: %s" % (ext, res.get("error")), detail)
            continue
        if res["outcome"] != "ok":
            chk.violation("%s: a well-nested file was rejected: %s" % (ext, (res.get("error") or "")[:200]), detail)
            continue
        exp = expected_blocks(case, r)
        listed = (res["list"] or {}).get(r["name"], [])
        got = [(b["name"], b["line"], b["column"]) for b in listed]
        want = [(e["name"] if not bare else "(unnamed)", e["line"], e["col"]) for e in exp]
        if sorted(got) != sorted(want):
            chk.violation("%s: blocks found %s, blocks written in comments %s" % (ext, sorted(got), sorted(want)),
                          dict(detail, expected=exp))
            continue
        # source order: by line, and by column for blocks that start on one line (nested or sibling)
        lines_ = [(g[1], g[2]) for g in got]
        if lines_ != sorted(lines_):
            chk.violation("%s: blocks not reported in source order: %s" % (ext, got), detail)
        # attributes as written
        for b in listed:
            want_attrs = {} if bare else {"name": b["name"]}
            if r.get("extra") and b["name"] == "n1":
                want_attrs["c"] = "#1 //2 ## 3"
            if r.get("ml"):
                # the value keeps what the comment holds between the quotes (continuation prefix included: gray)
                mlv = b["attributes"].pop("ml", None)
                sec = b["attributes"].pop("second", None)
                if sec is not None:
                    if (mlv, sec) != ("two", "lines"):
                        chk.violation("%s: attributes of a two-line tag came back as ml=%r second=%r" % (ext, mlv, sec), detail)
                elif mlv is None or not (mlv.startswith("two") and mlv.endswith("lines")):
                    chk.violation("%s: two-line attribute value came back as %r" % (ext, mlv), detail)
            if b["attributes"] != want_attrs:
                chk.violation("%s: attributes %s for block %s" % (ext, b["attributes"], b["name"]), detail)
        # content bytes from the block hook events (tag line -> content range)
        tb = {(e["tag"][0], e["tag"][1]): e for e in blocks_by_case.get(cid, [])}
        tbytes = r["text"].encode()
        for e in exp:
            ev = tb.get((e["line"], e["col"]))
            if ev is None:
                raise vlib.ToolError("no block event for %s" % (e,))
            content = tbytes[ev["bytes"][0]:ev["bytes"][1]].decode("utf-8", "replace")
            # CRLF: whether a line comment's node includes the "\r" is the grammar's choice (gray)
            if crlf and e["content"].startswith("\r") and content == e["content"][1:]:
                continue
            if content != e["content"]:
                chk.violation("%s: content of block %s is %r, the text between its two comments is %r" % (
                    ext, e["name"], content[:120], e["content"][:120]), dict(detail, expected=exp))
                break
    return len(batch)


def run_mixed_markdown(chk, quick):
    """Markdown files mixing [//]: # comments and HTML comments (Pairing with two comment kinds).
    The contract pairs all tags on one stack; the Markdown parser pairs each kind separately
    (deviation M1, modelled by SplitKinds): failures are excused only when the split machine
    predicts the observation exactly."""
    res = vlib.run_tlc("MC_C03", cfg="MC_C03md", timeout=1800, heap="12g")
    chk.add_tlc(res, "MC_C03md (two comment kinds, split stacks)")
    cases = [c for c in res.cases if c["mixed"]]
    chk.rng.shuffle(cases)
    cases = cases[:600 if quick else 6000]
    batch, meta = [], {}
    for i, c in enumerate(cases):
        ext = ("md", "markdown")[i % 2]
        r = langs.render(c["items"], ext, i, mixed_md=True)
        cid = "mdx%d" % i
        batch.append({"id": cid, "files": {r["name"]: r["text"]}, "diff": None, "args": ["list"], "terminal": True})
        meta[cid] = (c, r)
    results = vlib.run_bwexec(batch)
    for case in batch:
        c, r = meta[case["id"]]
        res_ = results[case["id"]]
        chk.count(nontrivial=True)
        by = {(s_["item"], s_["pos"]): s_ for s_ in r["starts"]}

        def names(blocks):
            return sorted(by[(b["s_item"], b["s_pos"])]["name"] for b in blocks)
        detail = {"abstract": c, "concrete": case, "observed": {k: res_.get(k) for k in ("outcome", "exit", "list", "error")}}
        if res_["outcome"] in ("panic", "hang", "abort"):
            chk.violation("mixed Markdown: crash", detail)
            continue
        obs_err = res_["outcome"] != "ok"
        obs_names = sorted(b["name"] for b in (res_.get("list") or {}).get(r["name"], [])) if not obs_err else None
        want_err = c["contract"]["err"] != "none"
        ok = (obs_err == want_err) and (obs_err or obs_names == names(c["contract"]["blocks"]))
        if ok:
            continue
        pred_err = c["err"] != "none"
        why = ("M1",) if (obs_err == pred_err and (obs_err or obs_names == names(c["blocks"]))) else ()
        chk.violation("mixed Markdown comment kinds: %s, but the tags written in comments are %s" % (
            "rejected: " + (res_.get("error") or "")[:80] if obs_err else "blocks %s" % obs_names,
            "unbalanced" if want_err else "the pairs %s" % names(c["contract"]["blocks"])), detail, explained_by=why)


def run(chk):
    quick = chk.tier == "quick"
    chk.rule = ("TLC enumerates every file of <= MaxItems items (code line, string/markup decoy holding tags, comment "
                "with 0..2 tags) and <= MaxTags tags of Pairing.tla, checks the stack machine against the well-nested "
                "matching, and emits the expected pairs; every balanced file is rendered for each of the 39 suffixes in "
                "that language's comment forms (line, block, multi-line block, doc with decorative stars, trailing after "
                "code, Rust /// and //!, Markdown [//]: # forms, HTML comments; LF/CRLF; ASCII/multi-byte filler) with "
                "by-construction line, byte column and content bytes; non-trivial = file with at least one block")
    cfg = rc.set_consts("MC_C03", MaxItems=4 if quick else 5, MaxTags=4 if quick else 6)
    res = vlib.run_tlc("MC_C03", cfg_text=cfg, timeout=3000, heap="12g")
    chk.add_tlc(res, "MC_C03")
    good = [c for c in res.cases if c["err"] == "none"]
    chk.rng.shuffle(good)
    nontrivial = [c for c in good if c["blocks"]]
    plan = []
    per_ext = 250 if quick else 3000
    for ext in langs.ALL_SUFFIXES:
        pool = nontrivial[:per_ext] if len(nontrivial) >= per_ext else nontrivial
        for k, c in enumerate(pool):
            plan.append((c, ext, k))
    chk.exhaustive = not quick
    run_cases(chk, plan, "c03-")
    run_mixed_markdown(chk, quick)
    chk.notes["suffixes"] = len(langs.ALL_SUFFIXES)
    chk.notes["forms_per_suffix"] = {e: langs.forms(e) for e in langs.ALL_SUFFIXES}
    if plan:
        c, ext, v = plan[len(plan) // 2]
        chk.sample({"abstract": c, "ext": ext, "file": langs.render(c["items"], ext, v)["text"]})
