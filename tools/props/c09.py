"""C09 line-count: Rules.tla CountStep loop vs contract, exhaustive replay in three layouts."""
import vlib
from props import rules_common as rc

LEVEL = "model_checking"


def run(chk):
    quick = chk.tier == "quick"
    chk.rule = ("TLC enumerates every block of <= MaxLen lines over {key, indented key, nested-block tag line, blank, "
                "whitespace-only} x 5 operators x N in 0..MaxN x 3 spellings; each behaviour is replayed with the "
                "content starting after the tag line, on the tag's own line, and (empty blocks) inside one comment; "
                "non-trivial = block with >= 2 lines")
    chk.exhaustive = True
    # quick: blocks of <= 4 lines incl. a line of non-ASCII white space; thorough: that, plus <= 6 lines without it
    for (ml, mn, uws) in ([(4, 5, "TRUE")] if quick else [(4, 7, "TRUE"), (6, 7, "FALSE")]):
        cfg = rc.set_consts("MC_C09", MaxLen=ml, MaxN=mn, WithUws=uws)
        res = vlib.run_tlc("MC_C09", cfg_text=cfg, timeout=3000, heap="12g")
        chk.add_tlc(res, "MC_C09 MaxLen=%d MaxN=%d WithUws=%s" % (ml, mn, uws))
        rc.replay(chk, res.cases, layouts=("line", "inline", "inline2", "same", "mltag", "combo"), cli_sample=150 if quick else 1000,
                  label="u%d" % ml)
        res.cases = None
    from props import rules_long
    rules_long.run(chk, "count", n=300 if quick else 3000)
