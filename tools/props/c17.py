"""C17 default Lua mode is a sandbox: LuaCaps.tla (closure of what any script can hold over the
object graph recorded inside the real interpreter, capability classes, per-mode policy) + probe
script run through the CLI for every value of BLOCKWATCH_LUA_MODE."""
import json
import os

import vlib

LEVEL = "model_checking"
MODES = [None, "sandboxed", "safe", "unsafe", "garbage", "SAFE", "safe ", "Unsafe", "strict", "0", "safe,unsafe", "sandbox", ""]


AMBIENT_ATTRS = ["", ' check-lua-mode="unsafe"', ' lua-mode="safe"', ' mode="unsafe"', ' BLOCKWATCH_LUA_MODE="unsafe"', ' check-lua-stdlib="all"']
AMBIENT_FILES = {".env": "BLOCKWATCH_LUA_MODE=unsafe\nLUA_MODE=unsafe\n", ".blockwatch.toml": 'lua_mode = "unsafe"\n[lua]\nmode = "unsafe"\n',
                 "blockwatch.toml": 'lua-mode = "unsafe"\n', ".blockwatchrc": "BLOCKWATCH_LUA_MODE=unsafe\n",
                 ".config/blockwatch/config.toml": 'lua_mode = "unsafe"\n'}


def normalise(path):
    p = path
    changed = True
    while changed:
        changed = False
        for pre in ("package.loaded.", "_G.", "@loadenv."):
            if p.startswith(pre):
                p = p[len(pre):]
                changed = True
    return p


def parse_probe(msg, mode):
    parts = msg.split("|")
    if parts[0] != "PROBE":
        raise vlib.ToolError("probe output not understood: %r" % msg[:200])
    nodes, edges, works = [], [], {}
    for tok in parts[1][2:].split(" "):
        i, rest = tok.split("=", 1)
        t, path = rest.split(":", 1)
        np = normalise(path)
        if np == "@loadenv":
            np = ""
        top = "_G" if np == "" else np.split(".")[0].split("@mt")[0] or "_G"
        if np.startswith("@stringmt"):
            top = "@stringmt"
        nodes.append({"id": int(i), "t": t, "top": top, "path": path})
    glob = []
    # global tables: the script's own (_G, node 1) and the one a load-compiled chunk runs in
    gtabs = {1} | {n["id"] for n in nodes if n["path"] == "@loadenv"}
    for tok in parts[2][2:].split(" "):
        c, rest = tok.split("<", 1)
        p, k = rest.split(":", 1)
        edges.append({"c": int(c), "p": int(p), "k": k})
        if int(p) in gtabs and k != "@mt":
            glob.append(k)
    for tok in parts[3][2:].split(" "):
        k, v = tok.split("=")
        works[k] = v == "1"
    return {"mode": mode if mode in ("safe", "unsafe") else "sandbox", "nodes": nodes, "edges": edges, "works": works,
            "globals": sorted(set(glob))}


def run(chk):
    quick = chk.tier == "quick"
    chk.rule = ("for every value of BLOCKWATCH_LUA_MODE (unset, sandboxed, safe, unsafe and look-alike / garbage values) a "
                "probe script run by the real binary records the object graph reachable from _G, the string metatable and "
                "every metatable, and exercises each dangerous capability; TLC computes over the recorded graph the fixed "
                "point of what any script can hold and checks the per-mode policy (allowed globals, capability classes of "
                "every held function, forbidden capabilities do not work, granted ones do); non-trivial = every mode value")
    wd = vlib.subdir("c17")
    secret = os.path.join(wd, "secret.lua")
    open(secret, "w").write("return 1\n")
    probe = os.path.join(wd, "probe.lua")
    src = open(os.path.join(vlib.ROOT, "tools", "lua", "probe.lua")).read().replace("PROBE_FILE", '"%s"' % secret)
    open(probe, "w").write(src)
    cases = []
    for i, m in enumerate(MODES):
        env = {} if m is None else {"BLOCKWATCH_LUA_MODE": m}
        # several scripted blocks in one run (the interpreter of a later block must be as restricted as the first one's),
        # one runtime worker for half of the modes so that the blocks run one after the other
        nb = 10 if quick else 60
        if i % 2:
            env = dict(env, TOKIO_WORKER_THREADS="1")
        files = {"a.py": "".join('# <block name="p%d" check-lua="%s"%s>\nx\n# </block>\n' % (k, probe, AMBIENT_ATTRS[(i + k) % len(AMBIENT_ATTRS)])
                                 for k in range(nb))}
        # the mode is a matter of the process environment only: neither attributes of the block nor files of the checked
        # repository (which the script's author controls) can lift the sandbox
        if i % 3 != 1:
            files.update(AMBIENT_FILES)
        cases.append({"id": "m%d" % i, "files": files, "diff": None, "args": [], "terminal": True, "env": env})
    res = vlib.run_cli(cases, timeout=60)
    chk.exhaustive = True
    for i, m in enumerate(MODES):
        r = res["m%d" % i]
        chk.count(key="mode:%r" % (m,), nontrivial=True)
        if r["outcome"] != "ok" or not r.get("report"):
            chk.violation("probe run failed in mode %r: %s" % (m, (r.get("error") or r.get("stderr") or "")[:300]), {"concrete": cases[i]})
            continue
        # the probe's report is the string the script returned: it is quoted by the diagnostic (message or data)
        def probe_text(d):
            for v in list((d.get("data") or {}).values()) + [d.get("message", "")]:
                if isinstance(v, str) and "PROBE|" in v:
                    return v[v.index("PROBE|"):]
            raise vlib.ToolError("probe output not found in diagnostic %s" % json.dumps(d)[:300])
        diags = r["report"]["a.py"]
        if len(diags) != nb:
            chk.violation("mode %r: %d scripted blocks, %d diagnostics" % (m, nb, len(diags)), {"concrete": cases[i]})
        graphs = {}
        for d in diags:
            g_ = parse_probe(probe_text(d), m)
            graphs.setdefault(json.dumps(g_, sort_keys=True), g_)
        chk.notes.setdefault("distinct_graphs_per_mode", {})[repr(m)] = len(graphs)
        for gi_, g in enumerate(graphs.values()):
            gpath = os.path.join(wd, "graph-%d-%d.json" % (i, gi_))
            with open(gpath, "w") as f:
                json.dump(g, f)
            t = vlib.run_tlc("LuaCaps", cfg="LuaCaps", workers=1, timeout=300, env={"GRAPH": gpath}, heap="2g")
            chk.states += t.distinct
            chk.transitions += max(t.generated, 1)
            chk.traces += 1
            chk.notes.setdefault("graphs", []).append({"mode": m, "policy": g["mode"], "nodes": len(g["nodes"]), "edges": len(g["edges"]),
                                                       "functions": sum(1 for n in g["nodes"] if n["t"] == "f"),
                                                       "tlc_states": t.distinct, "works": {k: v for k, v in g["works"].items() if v}})
            if not t.ok:
                txt = t.violation or ""
                if "nvariant" not in txt:
                    raise vlib.ToolError("LuaCaps failed for mode %r:\n%s" % (m, txt[-2000:]))
                inv = [l for l in txt.split("\n") if "nvariant" in l]
                # name what is wrong, from the graph itself
                extra = []
                allowed_sandbox = {"assert", "collectgarbage", "error", "getmetatable", "ipairs", "load", "next", "pairs", "pcall", "print",
                                   "rawequal", "rawget", "rawlen", "rawset", "select", "setmetatable", "tonumber", "tostring", "type", "warn",
                                   "xpcall", "_G", "_VERSION", "validate", "coroutine", "table", "string", "utf8", "math"}
                if g["mode"] == "sandbox":
                    extra = sorted(set(g["globals"]) - allowed_sandbox)
                chk.violation("mode %r (policy %s): %s; offending globals %s; working capabilities %s" % (
                    m, g["mode"], "; ".join(inv)[:200], extra, sorted(k for k, v in g["works"].items() if v)),
                    {"mode": m, "concrete": cases[i], "globals": g["globals"], "works": g["works"]})
    chk.sample({"mode": None, "graph_excerpt": {"globals": "see coverage.graphs"}})
