"""C05 tag syntax: TagSyntax.tla (attribute lists x layouts x look-alike noise, round-trip contract,
token-level scanner) + rendering of every emitted tag into a comment and comparison of the listed
attributes, line and byte column."""
import json

import vlib
from props import rules_common as rc

LEVEL = "model_checking"

NAME = {"a": "a", "k-1": "k-1", "x_y": "x_y", "uname": "ключ"}
VAL = {"v1": "v1", "uni": "значение-é", "empty": "", "gt": "x>y", "ltkv": "a<b k=v", "otherq": None, "looktag": "<block name=z>", "cmtchars": "#fff //x ## y", "bslash": "C:\\Tools\\", "url": "https://a.b//c", "-": ""}
SEP = {"sp": " ", "sp2": "  ", "tab": "\t", "nl": "\n   "}
EQ = {"eq": "=", "sp_eq_sp": " = ", "nl_eq": "\n   ="}
END = {"plain": "</block>", "inner": "</ block >", "trailsp": "</block >"}
LOOK = {"none": "", "text": "some text, 2 > 1", "b_tag": "<b>bold</b>", "lone_lt": "a <", "a_lt_b": "a < b and c<d",
        "blockquote": "<blockquote>q</blockquote>", "selfclose": "<block/>", "upper": "<Block> <BLOCK name=x>",
        "spaced": "< block> < block name=x>", "noattr_glued": "<blockname=x> <block-x> <block_>", "unterminated": "<block name='unterminated", "unterminated_dq": "<block name=\"unterminated"}


def spell_value(a):
    if a["vk"] == "bare":
        return "", ""
    v = VAL[a["val"]]
    if a["vk"] == "unq":
        v = v.replace("значение-é", "значение_é")
        return "=" , v
    q = '"' if a["vk"] == "dq" else "'"
    if a["val"] == "otherq":
        v = "it's" if q == '"' else 'say "hi"'
    assert q not in v
    return "=", q + v + q


def render(case, ci):
    lay = case["layout"]
    tag = "<block"
    exp = {}
    for a in case["attrs"]:
        eq, v = spell_value(a)
        tag += SEP[lay["sep"]] + NAME[a["name"]]
        if eq:
            tag += EQ[lay["eq"]] + v
        if a["vk"] == "bare":
            exp[NAME[a["name"]]] = ""
        elif a["vk"] == "unq":
            exp[NAME[a["name"]]] = v
        else:
            exp[NAME[a["name"]]] = v[1:-1]
    tag += lay["trail"].replace("sp", " ") + ">"
    if case["noise"]["before"] == "glued_after_end":
        return render_glued(case, ci, tag, exp)
    before = LOOK[case["noise"]["before"]]
    after = LOOK[case["noise"]["after"]]
    # the unterminated look-alike must not meet a quote later in the same comment: it goes into its own comment
    tail = ""
    if case["noise"]["after"] in ("unterminated", "unterminated_dq"):
        tail, after = after, ""
    body = "note " + (before + " " if before else "") + tag + (" " + after if after else "") + " note"
    multi = "\n" in body
    lang = ci % 5
    if not multi and lang in (3, 4):
        # C-family line comments ("//" is blanked by a different normaliser than Rust's): TypeScript and Go
        hdr = "package p\n" if lang == 4 else ""
        text = hdr + "// " + body + "\nvar x = 1\n// " + END[lay["endsp"]] + "\n" + ("// " + tail + "\n" if tail else "")
        name = "t.ts" if lang == 3 else "t.go"
        prefix = "// note " + (before + " " if before else "")
        col = len(prefix.encode()) + 1
        return name, text, [(exp, 2 if hdr else 1, col)]
    if multi or lang in (0, 3, 4):
        text = "/* " + body + " */\nstatic X: i32 = 1;\n/* " + END[lay["endsp"]] + " */\n" + ("/* " + tail + " */\n" if tail else "")
        name = "t.rs"
        prefix = "/* note " + (before + " " if before else "")
    elif lang == 1:
        text = "# " + body + "\nx = 1\n# " + END[lay["endsp"]] + "\n" + ("# " + tail + "\n" if tail else "")
        name = "t.py"
        prefix = "# note " + (before + " " if before else "")
    else:
        text = "<!-- " + body + " -->\n\ntext\n\n<!-- " + END[lay["endsp"]] + " -->\n" + ("\n<!-- " + tail + " -->\n" if tail else "")
        name = "t.md"
        prefix = "<!-- note " + (before + " " if before else "")
    col = len(prefix.encode()) + 1
    return name, text, [(exp, 1, col)]


def render_glued(case, ci, tag, exp):
    """The tag directly after the end tag of a previous block, as the last thing in its comment."""
    lay = case["layout"]
    end = END[lay["endsp"]]
    multi = "\n" in tag
    lang = ci % 3
    if multi or lang == 0:
        l2 = "/* " + end
        text = "/* <block name=\"p\"> */\nstatic P: i32 = 1;\n" + l2 + tag + " */\nstatic X: i32 = 1;\n/* " + end + " */\n"
        name = "t.rs"
    elif lang == 1:
        l2 = "# " + end
        text = "# <block name=\"p\">\np = 1\n" + l2 + tag + "\nx = 1\n# " + end + "\n"
        name = "t.py"
    else:
        l2 = "<!-- " + end
        text = "<!-- <block name=\"p\"> -->\n\ntext\n\n" + l2 + tag + " -->\n\ntext\n\n<!-- " + end + " -->\n"
        name = "t.md"
    first_col = {"t.rs": 4, "t.py": 3, "t.md": 6}[name]
    tag_line = 3 if name != "t.md" else 5
    return name, text, [({"name": "p"}, 1, first_col), (exp, tag_line, len(l2.encode()) + 1)]


def run(chk):
    quick = chk.tier == "quick"
    chk.rule = ("TLC enumerates every attribute list (<= MaxAttrs attributes; names incl. a non-ASCII one; bare, unquoted, "
                "double- and single-quoted values containing >, <, =, the other quote, non-ASCII text, a nested look-alike "
                "tag) x layout (space / tab / newline separators, spaces or newline around '=', trailing space, end-tag "
                "spellings) x look-alike noise before or after the tag; each is rendered into a Rust block comment, a "
                "Python line comment or a Markdown HTML comment; non-trivial = at least one attribute or a look-alike present")
    cfg = rc.set_consts("MC_C05", MaxAttrs=2, Quick="TRUE" if quick else "FALSE")
    batch, meta = [], {}

    def on(c):
        ci = len(batch)
        if quick and ci % 2 == 1 and False:
            return
        name, text, want = render(c, ci)
        cid = "t%d" % ci
        batch.append({"id": cid, "files": {name: text}, "diff": None, "args": ["list"], "terminal": True})
        meta[cid] = (c, want, name)
    res = vlib.run_tlc("MC_C05", cfg_text=cfg, timeout=3000, heap="16g", keep_cases=False, on_case=on)
    chk.add_tlc(res, "MC_C05")
    chk.exhaustive = True
    results = vlib.run_bwexec(batch)
    for case in batch:
        c, want, name = meta[case["id"]]
        r = results[case["id"]]
        chk.count(nontrivial=bool(c["attrs"]) or c["noise"]["before"] not in ("none", "text") or c["noise"]["after"] not in ("none", "text"))
        detail = {"abstract": c, "concrete": case, "expected": [{"attributes": e, "line": l, "column": k} for (e, l, k) in want],
                  "observed": {k: r.get(k) for k in ("outcome", "exit", "list", "error")}}
        if r["outcome"] != "ok":
            chk.violation("tag not recognised / run failed (%s): %s" % (r["outcome"], (r.get("error") or "")[:200]), detail)
            continue
        blocks = (r["list"] or {}).get(name, [])
        if len(blocks) != len(want):
            chk.violation("%d blocks found, %d tag pair(s) written (look-alikes: %s / %s)" % (
                len(blocks), len(want), c["noise"]["before"], c["noise"]["after"]), detail)
            continue
        for b, (exp, line, col) in zip(sorted(blocks, key=lambda x: (x["line"], x["column"])), want):
            if b["attributes"] != exp:
                chk.violation("attributes %s, written %s" % (json.dumps(b["attributes"], ensure_ascii=False), json.dumps(exp, ensure_ascii=False)), detail)
            elif (b["line"], b["column"]) != (line, col):
                chk.violation("tag reported at %d:%d, its '<' is at %d:%d" % (b["line"], b["column"], line, col), detail)
    # CLI sample
    ids = [b["id"] for b in batch]
    chk.rng.shuffle(ids)
    by = {b["id"]: b for b in batch}
    cres = vlib.run_cli([by[i] for i in ids[:150 if quick else 1500]])
    for cid, r in cres.items():
        r2 = results[cid]
        chk.count(nontrivial=False)
        if (r["outcome"], r["exit"], r["list"]) != (r2["outcome"], r2["exit"], r2["list"]):
            chk.violation("CLI and in-process pipeline disagree", {"concrete": by[cid], "cli": {k: r.get(k) for k in ("outcome", "exit", "list")}, "inproc": r2})
    chk.sample({"abstract": meta["t%d" % (len(batch) // 2)][0], "file": batch[len(batch) // 2]["files"]})
