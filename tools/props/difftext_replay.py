"""Replay of DiffText.tla: every abstract diff is turned into real old/new files, REAL `git diff -U3`
produces the text, the CLI lists the touched blocks.  Contract: accepted, every section examined.
A rejection is excused as known finding DV3 only when the as-coded model of unidiff's outer loop
predicts that very error."""
import json

import vlib
from props import difftouch as dt

TEXT = {"plain_add": "value_added_%d = %d", "plain_rem": "value_removed_%d = %d", "ctx": "kept_%d = %d",
        "rem_dash": "-- removed sql-style comment %d %d", "add_plus": "++ added plus-plus line %d %d"}


def concretize(case, ci):
    files, diff = {}, ""
    for s, hunks in enumerate(case["diff"], 1):
        name = "sec%d.py" % s
        old = ['# <block name="s%d">' % s]
        new = ['# <block name="s%d">' % s]
        n = 0
        for h in hunks:
            for k in range(10):
                n += 1
                old.append("filler_%d = %d" % (n, s))
                new.append("filler_%d = %d" % (n, s))
            for c in h:
                n += 1
                line = TEXT[c] % (n, s)
                if c in ("plain_add", "add_plus"):
                    new.append(line)
                elif c in ("plain_rem", "rem_dash"):
                    old.append(line)
                else:
                    old.append(line)
                    new.append(line)
        for k in range(10):
            n += 1
            old.append("tail_%d = %d" % (n, s))
            new.append("tail_%d = %d" % (n, s))
        old.append("# </block>")
        new.append("# </block>")
        files[name] = "\n".join(new) + "\n"
        diff += dt.git_diff("\n".join(old) + "\n", files[name], 3, name)
    return files, diff


def replay(chk, cases, label):
    batch, meta = [], {}
    for ci, case in enumerate(cases):
        files, diff = concretize(case, ci)
        cid = "%s%d" % (label, ci)
        batch.append({"id": cid, "files": files, "diff": diff, "args": ["list"], "terminal": False})
        meta[cid] = case
    res = vlib.run_cli(batch, timeout=30)
    for c in batch:
        case = meta[c["id"]]
        r = res[c["id"]]
        chk.count(nontrivial=case["hazard"])
        detail = {"abstract": case, "concrete": c, "observed": {k: r.get(k) for k in ("outcome", "exit", "list", "error")}}
        if r["outcome"] in ("panic", "hang", "abort", "garbled", "other"):
            chk.violation("a git diff crashes blockwatch (%s)" % r["outcome"], detail)
            continue
        want = sorted(c["files"])
        if r["outcome"] == "ok" and sorted((r["list"] or {}).keys()) == want:
            if case["pred"]["err"] != "none":
                chk.drift += 1
            continue
        # rejected or a section lost
        why = ()
        err = r.get("error") or ""
        if case["pred"]["err"] == "TargetWithoutSource" and "Target without source" in err:
            why = ("DV3",)
        elif case["pred"]["err"] == "UnexpectedHunk" and "Unexpected hunk" in err:
            why = ("DV3",)
        elif r["outcome"] == "ok" and case["pred"]["err"] == "none" and case["hazard"]:
            # accepted but a section vanished or a bogus file entry appeared, as the model predicts
            pf = [f for f in case["pred"]["files"] if f > 0]
            if sorted("sec%d.py" % f for f in set(pf)) == sorted((r["list"] or {}).keys()):
                why = ("DV3",)
        chk.violation("a diff produced by git (-U3) was rejected or lost a file: %s; listed %s of %s" % (
            err[:120], sorted((r.get("list") or {}).keys()), want), detail, explained_by=why)
    if batch:
        chk.sample({"difftext_case": meta[batch[0]["id"]], "diff": batch[0]["diff"][:600]})
