"""Impl -> spec for C01/C02 beyond the exhaustive bounds: random large edits of multi-block files,
real `git diff` at several context widths, the CLI with hooks on, and TraceDiff.tla over the recorded
diff walk and touch flags of every file section."""
import os

import vlib
import runtrace
from props import difftouch as dt


def gen_file(rng, nblocks, nlines):
    lines = []
    depth = 0
    names = 0
    for k in range(nlines):
        r = rng.random()
        if r < 0.08 and names < nblocks:
            names += 1
            depth += 1
            lines.append('%s// <block name="g%d" v="%d">' % ("  " * rng.randrange(3), names, rng.randrange(9)))
        elif r < 0.16 and depth > 0:
            depth -= 1
            lines.append("// </block>")
        else:
            lines.append("let v%d_%d = %d;" % (k, rng.randrange(10 ** 6), rng.randrange(100)))
    while depth > 0:
        depth -= 1
        lines.append("// </block>")
    return lines


def edit(rng, lines):
    out = []
    k = 0
    while k < len(lines):
        r = rng.random()
        if r < 0.06:
            n = rng.randint(1, 3)                        # delete a run (tag lines stay: the file must remain balanced)
            while n > 0 and k < len(lines) and "block" not in lines[k]:
                k += 1
                n -= 1
            if k < len(lines) and "block" in lines[k]:
                out.append(lines[k])
                k += 1
        elif r < 0.12:
            for _ in range(rng.randint(1, 3)):
                out.append("let ins_%d = 0;" % rng.randrange(10 ** 7))   # insert a run
        elif r < 0.20:
            l = lines[k]
            if "<block" in l and rng.random() < 0.5:
                out.append(l.replace('v="', 'v="9'))      # attribute edit
            elif "</block>" in l or "<block" in l:
                out.append(l + " x")                       # comment text after the tag
            else:
                out.append(l.replace("=", "= 1 +", 1))     # content edit
            k += 1
        else:
            out.append(lines[k])
            k += 1
    return out


def shifted_deletion_case(rng, k):
    """A net deletion of D lines at the top, then a pure deletion just before a block, then an
    addition inside the block: the change list is not sorted (old-file line number of the deletion)."""
    D = rng.randint(3, 12)
    top = ["let top_%d_%d = 0;" % (k, i) for i in range(D + 2)]
    gap = ["let gap_%d_%d = 0;" % (k, i) for i in range(rng.randint(1, 4))]
    block = ['// <block name="s%d" v="1">' % k] + ["let in_%d_%d = 0;" % (k, i) for i in range(rng.randint(2, 5))] + ["// </block>"]
    tail = ["let tail_%d_%d = 0;" % (k, i) for i in range(4)]
    old = top + gap + block + tail
    new = top[D:] + gap[:-1] + block[:2] + ["let added_%d = 1;" % k] + block[2:] + tail
    return old, new


def run(chk, n=40):
    rng = chk.rng
    tdir = vlib.subdir("difflong-traces")
    cases = []
    for i in range(max(6, n // 4)):
        old, new = shifted_deletion_case(rng, i)
        name = "s%d.js" % i
        text = "\n".join(new) + "\n"
        cases.append({"id": "shift%d" % i, "files": {name: text}, "args": ["list"], "terminal": False,
                      "diff": dt.git_diff("\n".join(old) + "\n", text, rng.choice([0, 0, 1, 3]), name)})
    for i in range(n):
        files, diff = {}, ""
        for f in range(rng.randint(1, 3)):
            name = ["a.js", "lib/b.ts", "c.rs"][f]
            old = gen_file(rng, rng.randint(2, 8), rng.randint(30, 160))
            new = edit(rng, old)
            if new == old:
                new = new + ["let tail = 1;"]
            files[name] = "\n".join(new) + "\n"
            diff += dt.git_diff("\n".join(old) + "\n", files[name], rng.choice([0, 1, 3, 10]), name)
        cases.append({"id": "long%d" % i, "files": files, "diff": diff, "args": ["list"], "terminal": False})
    res = vlib.run_cli(cases, trace_dir=tdir, timeout=60)
    trs = {}
    for c in cases:
        r = res[c["id"]]
        chk.count(nontrivial=True)
        if r["outcome"] in ("panic", "hang", "abort", "garbled", "other"):
            chk.violation("large edit: crash or garbage (%s)" % r["outcome"], {"concrete": c, "stderr": (r.get("stderr") or "")[-300:]})
            continue
        if r["outcome"] != "ok":
            chk.violation("large edit: a git diff was not accepted: %s" % (r.get("error") or "")[:200], {"concrete": c})
            continue
        evs = runtrace.read_events(os.path.join(tdir, "cli-%s.ndjson" % c["id"]))
        for tf, tr in runtrace.diff_traces(evs).items():
            trs["%s:%s" % (c["id"], tf)] = tr
    by = {c["id"]: c for c in cases}
    for tid, (ok, diag, states, rc_) in runtrace.validate_many("TraceDiff", trs, timeout=600).items():
        chk.traces += 1
        chk.states += states
        chk.transitions += states
        if not ok:
            if rc_ not in (10, 12, 13) and "TRACE" not in (diag or "") and "nvariant" not in (diag or ""):
                raise vlib.ToolError("TraceDiff failed on %s rc=%s\n%s" % (tid, rc_, diag))
            chk.violation("TraceDiff rejects the recorded diff walk / touch flags of a large edit: %s" % (diag or "")[:300],
                          {"concrete": by[tid.split(":")[0]], "trace_len": len(trs[tid])})
    chk.notes.setdefault("trace_runs", []).append({"spec": "TraceDiff", "sections": len(trs),
                                                   "events": sum(len(t) for t in trs.values())})
