"""C12 unbalanced block tags are a hard error: Pairing.tla (err = none <=> WellNested for every
tag stream) + rendering of every unbalanced file per language, alone and among healthy files, in
scan, list and diff mode."""
import vlib
import langs
from props import rules_common as rc

LEVEL = "model_checking"

HEALTHY = {"ok1.py": '# <block name="h1" keep-sorted>\na\nb\n# </block>\n', "sub/ok2.rs": "// <block name=\"h2\">\nstatic X: i32 = 1;\n// </block>\n",
           "ok3.md": "<!-- <block name=\"h3\"> -->\ntext\n<!-- </block> -->\n"}


def run(chk):
    quick = chk.tier == "quick"
    chk.rule = ("TLC enumerates every tag stream (<= MaxTags tags over <= MaxItems comment/code/string items) of Pairing.tla "
                "and checks err = none <=> WellNested; every unbalanced file (a start never closed, an end with nothing "
                "open, at any depth) is rendered in the comment forms of each of the 39 suffixes, alone and among healthy "
                "files, with one-line and two-line start tags, with and without a final line terminator, and run in scan, list, glob and diff mode; non-trivial = every unbalanced file")
    cfg = rc.set_consts("MC_C03", MaxItems=4 if quick else 5, MaxTags=4 if quick else 6)
    res = vlib.run_tlc("MC_C03", cfg_text=cfg, timeout=3000, heap="12g")
    chk.add_tlc(res, "MC_C03 (Pairing)")
    bad = [c for c in res.cases if c["err"] != "none"]
    chk.rng.shuffle(bad)
    per_ext = 40 if quick else 600
    batch, meta = [], {}
    k = 0
    small = [c for c in bad if sum(len(i["tags"]) for i in c["items"]) <= 2 and len(c["items"]) <= 2]
    # critical streams: the error hinges on a single tag (dropping one tag would make the file well nested), so a
    # scanner that loses one tag anywhere -- first or last of its comment, glued to its neighbour or not -- accepts it
    def tags_of(c):
        return [t for it in c["items"] for t in it["tags"]]

    def balanced(ts):
        d = 0
        for t in ts:
            d += 1 if t == "S" else -1
            if d < 0:
                return False
        return d == 0
    critical = [c for c in bad if len(tags_of(c)) <= 3 and len(c["items"]) <= (3 if quick else 4)
                and any(balanced(tags_of(c)[:k] + tags_of(c)[k + 1:]) for k in range(len(tags_of(c))))]
    chk.notes["critical_streams"] = len(critical)
    for ext in langs.ALL_SUFFIXES:
        pool = [(c, False, e) for c in small for e in range(4)] + [(c, True, 0) for c in small] + \
               [(c, b, None) for c in critical for b in (False, True)] + \
               [(c, j % 5 == 4, None) for j, c in enumerate(bad[:per_ext])]
        for j, (c, bare, endsp) in enumerate(pool):
            if ext in ("md", "markdown") and bare:
                continue
            # also: quoted attribute values continuing on the next comment line; files that end without a line terminator
            r = langs.render(c["items"], ext, j, bare=bare, endsp=endsp, mlattr=(j % 3 == 1 and not bare), no_eol=(j % 4 >= 2),
                             container=("tpl" if (ext in langs.TPL and j % 5 == 2) else None),
                             # a block's own severity (or any other rule attribute) does not soften the parse error
                             tag_attrs=({k: (' severity="warning"', ' severity="HINT" keep-sorted', ' severity="info" line-count="<9"')[(j + k) % 3]
                                         for k in range(1, 8)} if (j % 4 == 1 and not bare) else None))
            files = {r["name"]: r["text"]}
            if j % 2:
                files.update(HEALTHY)
            mode = ("scan", "list", "diff", "glob")[j % 4]
            case = {"id": "u%d" % k, "files": files, "diff": None, "args": [], "terminal": True}
            if mode == "list":
                case["args"] = ["list"]
            elif mode == "glob":
                case["args"] = [r["name"]] if "/" not in r["name"] else ["**"]
            elif mode == "diff":
                n = r["name"]
                case.update(terminal=False, diff="diff --git a/%s b/%s\n--- a/%s\n+++ b/%s\n@@ -1 +1 @@\n-x\n+%s\n" % (
                    n, n, n, n, r["lines"][0] if r["lines"] else ""))
            batch.append(case)
            meta[case["id"]] = (c, ext, mode, r["name"])
            k += 1
    tdir = vlib.subdir("c12-traces")
    results = vlib.run_bwexec(batch, trace_dir=tdir)
    import os
    import runtrace
    all_events = {}
    for fn in os.listdir(tdir):
        all_events.update(runtrace.split_cases(runtrace.read_events(os.path.join(tdir, fn))))
    runtrace.validate_pairing(chk, all_events, limit=3000)
    chk.exhaustive = not quick

    def judge(case, r, via):
        c, ext, mode, name = meta[case["id"]]
        chk.count(nontrivial=True)
        detail = {"abstract": c, "ext": ext, "mode": mode, "concrete": case,
                  "observed": {x: r.get(x) for x in ("outcome", "exit", "list", "report", "error")}}
        if r["outcome"] in ("panic", "hang", "abort", "garbled", "other"):
            chk.violation("%s %s/%s: crash or garbage (%s)" % (via, ext, mode, r["outcome"]), detail)
        elif r["outcome"] != "error" or r["exit"] == 0:
            chk.violation("%s %s/%s: unbalanced tags (%s) but the run ended with exit=%s (%s)" % (
                via, ext, mode, c["err"], r["exit"], r["outcome"]), detail)
        elif name not in (r.get("error") or ""):
            chk.violation("%s %s/%s: the error does not name the damaged file %s: %s" % (via, ext, mode, name, (r.get("error") or "")[:200]), detail)
    for case in batch:
        judge(case, results[case["id"]], "inproc")
    sample = list(batch)
    chk.rng.shuffle(sample)
    sample = sample[:200 if quick else 2000]
    tdir2 = vlib.subdir("c12-cli-traces")
    cres = vlib.run_cli(sample, trace_dir=tdir2)
    for case in sample:
        judge(case, cres[case["id"]], "cli")
    # the complete runs against the system specification: a parse failure ends the run at once
    sys_tr = {}
    for case in sample:
        if cres[case["id"]]["outcome"] not in ("ok", "error", "reject"):
            continue
        evs = runtrace.read_events(os.path.join(tdir2, "cli-%s.ndjson" % case["id"]))
        sys_tr[case["id"]] = runtrace.system_trace(evs, cres[case["id"]], case["args"], not case["terminal"])
    for tid, (ok, diag, states, rc_) in runtrace.validate_system(sys_tr).items():
        chk.traces += 1
        chk.states += states
        chk.transitions += states
        if not ok:
            if rc_ not in (10, 12, 13) and "TRACE" not in (diag or "") and "nvariant" not in (diag or ""):
                raise vlib.ToolError("TraceSystem failed on %s rc=%s\n%s" % (tid, rc_, diag))
            chk.violation("TraceSystem rejects the recorded run: %s" % (diag or "")[:300], {"trace": sys_tr[tid]})
    if batch:
        chk.sample({"abstract": meta[batch[0]["id"]][0], "files": batch[0]["files"]})
