"""C16 grammar is chosen by file name; unknown names are skipped: Grammar.tla (dot-walk vs
GrammarOf, 39-entry table as a constant) + replay: each name gets a body that is a valid block only
in the expected grammar's comment syntax and an unclosed tag in the other families' syntaxes."""
import json

import vlib
from props import rules_common as rc

LEVEL = "model_checking"

FAMILY = {"python": "hash", "ruby": "hash", "bash": "hash", "toml": "hash", "yaml": "hash", "make": "hash",
          "c": "c", "cpp": "c", "csharp": "c", "go": "c", "java": "c", "js": "c", "kotlin": "c", "php": "c", "rust": "c",
          "swift": "c", "ts": "c", "tsx": "c", "html": "xml", "xml": "xml", "md": "xml", "css": "css", "sql": "sql"}
VALID = {"hash": '# <block name="ok">\nX1\n# </block>\n', "c": '// <block name="ok">\nX1\n// </block>\n',
         "xml": '<!-- <block name="ok"> -->\n\nX1\n\n<!-- </block> -->\n', "css": '/* <block name="ok"> */\nX1\n/* </block> */\n',
         "sql": '-- <block name="ok">\nX1\n-- </block>\n'}
LEAK = {"hash": '# <block name="leak-hash">\n', "c": '// <block name="leak-c">\n', "xml": '\n<!-- <block name="leak-xml"> -->\n',
        "sql": '-- <block name="leak-sql">\n'}
# comment syntaxes that a grammar of another family also treats as comments (calibrated on the unchanged
# tree, documented in DESIGN.md): these leak lines are left out for that grammar
ALSO_COMMENT = {"php": {"hash"}, "css": set(), "md": set(), "js": set(), "ts": set(), "tsx": set(), "sql": {"xml"}}   # "<!-- x -->" contains "--", a SQL line comment


def body_for(grammar):
    if grammar in ("none", "rejected"):
        return "".join(LEAK.values()) + '/* <block name="leak-css"> */\n'
    fam = FAMILY[grammar]
    t = VALID[fam]
    header = "<?php\n" if grammar == "php" else ("package p\n" if grammar == "go" else "")
    for f, leak in LEAK.items():
        if f == fam or (fam == "css" and f == "c") or f in ALSO_COMMENT.get(grammar, set()):
            continue
        if fam == "c" and f == "c":
            continue
        t += leak
    return header + t


def spell(comps):
    # TLC strings are ASCII: the component "uname" stands for a non-ASCII component (2-byte and 3-byte letters)
    u = "caf\u00e9\u65e5"
    return ".".join(u if c == "uname" else c for c in comps)


def run(chk):
    quick = chk.tier == "quick"
    chk.rule = ("TLC enumerates every base name of <= MaxComp dot-separated components over {x, X, empty, bak, d, ts, go, "
                "mod, sum, Makefile, makefile, py, PY, rs, md, cxx} x {no remapping, one of 9 -E remappings (registered -> "
                "registered, unknown -> registered, unknown -> unknown, onto a compound suffix, of a compound key)} and "
                "MAKEFILE, Gemfile, a non-ASCII component; + 2 remappings: upper-case whole-name key, non-ASCII key) and checks the dot-walk against GrammarOf with the 39-entry table as a constant; each name is created in a "
                "directory whose names contain dots, with a body valid only in the expected family's comment syntax; "
                "plus every registered suffix as x.SUFFIX, x.y.SUFFIX, .x.SUFFIX, x.SUFFIX.bak, upper-cased; non-trivial = "
                "name that maps to a grammar or a rejected remapping")
    res = vlib.run_tlc("MC_C16", cfg_text=rc.set_consts("MC_C16", MaxComp=3 if quick else 4), timeout=3000, heap="16g")
    chk.add_tlc(res, "MC_C16")
    cases_tlc = res.cases
    chk.rng.shuffle(cases_tlc)
    ok_name = lambda c: spell(c["name"]) not in ("", ".", "..", "...")
    short = [c for c in cases_tlc if ok_name(c) and len(c["name"]) <= 2]          # every short name x every remapping, always
    plan = short + [c for c in cases_tlc if ok_name(c) and len(c["name"]) > 2][:1500 if quick else 40000]
    # every registered suffix in the shapes the statement lists (expected grammar from the spec's table via TLC:
    # the table is emitted below as a second TLC artefact = cases with single-suffix names)
    import langs
    table = {}
    for c in cases_tlc:
        if not c["remap"] and c["grammar"] not in ("none", "rejected"):
            table[spell(c["name"])] = c["grammar"]
    SUFFIX_GRAMMAR = {"Makefile": "make", "bash": "bash", "c": "c", "cc": "cpp", "cpp": "cpp", "cs": "csharp", "css": "css", "d.ts": "ts",
                      "go": "go", "go.mod": "go", "go.sum": "go", "go.work": "go", "h": "cpp", "htm": "html", "html": "html",
                      "java": "java", "js": "js", "jsx": "js", "kt": "kotlin", "kts": "kotlin", "makefile": "make", "markdown": "md",
                      "md": "md", "mk": "make", "php": "php", "phtml": "php", "py": "python", "pyi": "python", "rb": "ruby", "rs": "rust",
                      "sh": "bash", "sql": "sql", "swift": "swift", "toml": "toml", "ts": "ts", "tsx": "tsx", "xml": "xml",
                      "yaml": "yaml", "yml": "yaml"}
    assert sorted(SUFFIX_GRAMMAR) == sorted(langs.ALL_SUFFIXES)
    shapes = []
    for sfx, g in SUFFIX_GRAMMAR.items():
        shapes += [(["x"] + sfx.split("."), [], g), (["x", "y"] + sfx.split("."), [], g), ([""] + ["x"] + sfx.split("."), [], g),
                   (sfx.split("."), [], g if True else g),
                   (["x"] + sfx.split(".") + ["bak"], [], "none"), (["x"] + sfx.upper().split("."), [], "none" if sfx.upper() != sfx else g),
                   (["x"] + sfx.split(".") + ["bak"], [{"from": ["bak"], "to": sfx.split(".")}], g)]
    for comps, remap, g in shapes:
        plan.append({"name": comps, "remap": remap, "valid": True, "grammar": g, "shape": True})
    chk.exhaustive = not quick
    # several files per run (grouped by remapping): the grammar of one file must not depend on its siblings
    groups = {}
    for c in plan:
        base = spell(c["name"])
        if base in ("", ".", "..") or base.endswith("/"):
            continue
        groups.setdefault(json.dumps(c["remap"], sort_keys=True), []).append(c)
    batch, meta = [], {}
    gi = 0
    for key, cs in groups.items():
        chk.rng.shuffle(cs)
        size = 1 if any(c["grammar"] == "rejected" for c in cs) else 5
        k = 0
        while k < len(cs):
            chunk, names = [], set()
            while k < len(cs) and len(chunk) < size:
                if spell(cs[k]["name"]) not in names:
                    chunk.append(cs[k])
                    names.add(spell(cs[k]["name"]))
                k += 1
            args = ["list"]
            rms = list(chunk[0]["remap"])
            if gi % 2:
                rms.reverse()                 # several -E flags: in either order
            for r in rms:
                args += ["-E", "%s=%s" % (spell(r["from"]), spell(r["to"]))]
            files, diff, members = {}, "", []
            hidden = False
            for c in chunk:
                base = spell(c["name"])
                path = "dir.v1/sub.d/" + base
                text = body_for(c["grammar"])
                files[path] = text
                body_ = "".join("+" + l + "\n" for l in text.split("\n")[:-1])
                if len(members) % 3 == 1:
                    # the file was renamed and edited: the OLD name (--- side) maps to the opposite kind of grammar
                    # (none if the new name has one, python if it has none); the grammar follows the NEW name
                    oldp = "was/" + ("renamed.txt" if c["grammar"] not in ("none", "rejected") else "renamed.py")
                    diff += ("diff --git a/%s b/%s\nsimilarity index 60%%\nrename from %s\nrename to %s\n--- a/%s\n+++ b/%s\n@@ -1 +1,%d @@\n-old\n%s" % (
                        oldp, path, oldp, path, oldp, path, text.count("\n"), body_))
                else:
                    diff += "diff --git a/%s b/%s\n--- a/%s\n+++ b/%s\n@@ -0,0 +1,%d @@\n%s" % (
                        path, path, path, path, text.count("\n"), body_)
                members.append((c, path))
                hidden = hidden or base.startswith(".")
            cid = "g%d" % gi
            gi += 1
            scan = (gi % 2 == 0) and not hidden
            batch.append({"id": cid, "files": files, "diff": None if scan else diff, "args": args, "terminal": scan})
            meta[cid] = members
    results = vlib.run_bwexec(batch)

    def judge(case, r, via):
        members = meta[case["id"]]
        detail = {"abstract": [m[0] for m in members], "concrete": case,
                  "observed": {k: r.get(k) for k in ("outcome", "exit", "list", "error")}}
        for c, path in members:
            chk.count(nontrivial=c["grammar"] != "none")
        if r["outcome"] in ("panic", "hang", "abort", "garbled", "other"):
            chk.violation("%s: crash or garbage" % via, detail)
            return
        if members[0][0]["grammar"] == "rejected":
            if r["outcome"] == "ok" or r["exit"] == 0:
                chk.violation("%s: a -E mapping onto an unsupported grammar was accepted" % via, detail)
            return
        if r["outcome"] != "ok":
            chk.violation("%s: a file was parsed with a grammar it does not map to (or one that should be skipped was parsed): %s" % (
                via, (r.get("error") or "")[:160]), detail)
            return
        for c, path in members:
            got = [b["name"] for b in (r["list"] or {}).get(path, [])]
            want = [] if c["grammar"] == "none" else ["ok"]
            if got != want:
                chk.violation("%s: %s: blocks %s, expected %s (grammar %s)" % (via, path, got, want, c["grammar"]), detail)
    for case in batch:
        judge(case, results[case["id"]], "inproc")
    sample = list(batch)
    chk.rng.shuffle(sample)
    sample = sample[:150 if quick else 1500]
    cres = vlib.run_cli(sample)
    for case in sample:
        judge(case, cres[case["id"]], "cli")
    chk.sample({"abstract": plan[0], "files": batch[0]["files"], "args": batch[0]["args"]})
