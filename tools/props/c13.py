"""C13 malformed rules fail closed: RuleSyntax.tla (token grammars of the rule attributes, TLC
enumerates every token sequence with its verdict) + Run!FailClosed (an Err of any validator fails
the run under every interleaving) + replay of every emitted value on a block among healthy blocks."""
import json
import os

import vlib
from props import rules_common as rc
from props import runreplay as rr

LEVEL = "model_checking"

SPELL = {
    "count": {"lt": "<", "le": "<=", "eq2": "==", "ge": ">=", "gt": ">", "eq1": "=", "d3": "3", "d0": "0",
              "big": "99999999999999999999999", "neg": "-1", "word": "x", "sp": " ", "tab": "\t"},
    "dir": {"asc": "asc", "ASC": "ASC", "desc": "desc", "Desc": "Desc", "x": "x", "sp": " "},
    "fmt": {"numeric": "numeric", "Numeric": "Numeric", "lexicographic": "lexicographic", "num": "num", "x": "x", "sp": " "},
    "sev": {"error": "error", "Warning": "Warning", "INFO": "INFO", "hint": "hint", "fatal": "fatal", "x": "x", "sp": " "},
    "aff": {"ref": ":other", "fref": "f2.py:other", "bare": "other", "comma": ",", "sp": " "},
    "re": {"lit": "a", "dot": ".", "star": "*", "lpar": "(", "rpar": ")", "lbr": "[", "rbr": "]", "named": "(?P<value>b)"},
}
OPS = {"lt": "<", "le": "<=", "eq2": "==", "ge": ">=", "gt": ">"}
HEALTHY = [
    ['# <block name="h1" keep-sorted>', "a", "b", "# </block>"],
    ['# <block name="h2" line-count="<=3">', "x", "# </block>"],
    ['# <block name="h3" keep-unique severity="warning">', "dup", "dup", "# </block>"],   # a warning neighbour
    ['# <block name="other">', "o", "# </block>"],
]


def subject(kind, value, idx, lua_script):
    """Lines of the block that carries the attribute value under test (un-hedged context)."""
    if kind == "count":
        return ['# <block name="subj" line-count="%s">' % value, "l1", "l2", "l3", "# </block>"], 3
    if kind == "dir":
        return ['# <block name="subj" keep-sorted="%s">' % value, "m", "m", "# </block>"], None
    if kind == "fmt":
        return ['# <block name="subj" keep-sorted keep-sorted-format="%s">' % value, "1", "2", "# </block>"], None
    if kind == "sev":
        return ['# <block name="subj" keep-unique severity="%s">' % value, "d", "d", "# </block>"], None
    if kind == "aff":
        return ['# <block name="subj" affects="%s">' % value, "changed", "# </block>"], None
    if kind == "re":
        which = idx % 4
        one = (idx // 4) % 2 == 1      # a block with content: one line is content enough
        if one:
            body = ["a"]
            if which == 0:
                return ['# <block name="subj" keep-sorted keep-sorted-pattern="%s">' % value] + body + ["# </block>"], None
            if which == 1:
                return ['# <block name="subj" keep-unique="%s">' % value] + body + ["# </block>"], None
            if which == 2:
                return ['# <block name="subj" line-pattern="%s">' % value] + body + ["# </block>"], None
            return ['# <block name="subj" check-lua="%s" check-lua-pattern="%s">' % (lua_script, value)] + body + ["# </block>"], None
        if which == 0:
            return ['# <block name="subj" keep-sorted keep-sorted-pattern="%s">' % value, "a", "ab", "# </block>"], None
        if which == 1:
            return ['# <block name="subj" keep-unique="%s">' % value, "a", "ab", "# </block>"], None
        if which == 2:
            return ['# <block name="subj" line-pattern="%s">' % value, "a", "ab", "# </block>"], None
        return ['# <block name="subj" check-lua="%s" check-lua-pattern="%s">' % (lua_script, value), "a", "ab", "# </block>"], None
    raise ValueError(kind)


def build(kind, value, idx, lua_script):
    """-> concrete case.  Placement of the subject block rotates with idx."""
    subj, _ = subject(kind, value, idx, lua_script)
    pos = idx % 3
    blocks = list(HEALTHY)
    f1 = blocks[:2]
    f2 = blocks[2:]
    target = f1 if (idx // 3) % 2 == 0 else f2
    target.insert([0, 1, len(target)][pos], subj)
    files = {"f1.py": "\n".join("\n".join(b) for b in f1) + "\n", "f2.py": "\n".join("\n".join(b) for b in f2) + "\n"}
    case = {"files": files, "diff": None, "args": [], "terminal": True}
    if kind == "aff":
        # diff mode: the subject block's content line is modified
        fname = "f1.py" if target is f1 else "f2.py"
        lines = files[fname].split("\n")
        ln = lines.index("changed") + 1
        diff = ("diff --git a/%s b/%s\n--- a/%s\n+++ b/%s\n@@ -%d +%d @@\n-old\n+changed\n" % (fname, fname, fname, fname, ln, ln))
        case.update(diff=diff, terminal=False)
    return case


def run(chk):
    quick = chk.tier == "quick"
    chk.rule = ("TLC enumerates every token sequence (<= MaxTok tokens) of each rule-attribute grammar of RuleSyntax.tla "
                "(line-count expression, sort direction, sort format, severity, affects reference list, regex) with its "
                "verdict valid / invalid / gray; each value is placed on a block (first / middle / last, either file) among "
                "clean, violating and warning-severity neighbours; plus the explicit battery of script / condition / key / "
                "numeric-key malformations; Run!FailClosed is model-checked for every interleaving; non-trivial = invalid value")
    rr.check_invariants(chk, dict(NSync=2, NLua=2, NAi=1) if quick else dict(NSync=3, NLua=2, NAi=1), "C13")
    wd = vlib.subdir("c13")
    lua_ok = os.path.join(wd, "ok.lua")
    with open(lua_ok, "w") as f:
        f.write("function validate(ctx, content) return nil end\n")
    bounds = {"count": 4 if quick else 5, "dir": 3, "fmt": 3, "sev": 2, "aff": 4 if quick else 5, "re": 4 if quick else 5}
    batch, meta = [], {}
    for kind, mt in bounds.items():
        cfg = rc.set_consts("MC_C13", MaxTok=mt, Kind='"%s"' % kind)
        res = vlib.run_tlc("MC_C13", cfg_text=cfg, timeout=1800, heap="8g")
        chk.add_tlc(res, "MC_C13 %s MaxTok=%d" % (kind, mt))
        for i, c in enumerate(res.cases):
            value = "".join(SPELL[kind][t] for t in c["toks"])
            case = build(kind, value, i, lua_ok)
            case["id"] = "%s-%d" % (kind, i)
            batch.append(case)
            meta[case["id"]] = (c, value)
    chk.exhaustive = True
    results = vlib.run_bwexec(batch)
    by_id = {b["id"]: b for b in batch}
    for cid, (c, value) in meta.items():
        judge(chk, c, value, by_id[cid], results[cid], cid)
    # CLI sample of the same cases
    ids = sorted(meta)
    chk.rng.shuffle(ids)
    sample = ids[:200 if quick else 2000]
    cres = vlib.run_cli([by_id[i] for i in sample])
    for cid in sample:
        c, value = meta[cid]
        judge(chk, c, value, by_id[cid], cres[cid], cid, via="cli")
    explicit_battery(chk, wd, lua_ok)
    chk.sample({"kind": "count", "value": "<= 3 x", "verdict": "invalid"})


def judge(chk, c, value, conc, res, cid, via="inproc", batch_lookup=None):
    nontrivial = c["verdict"] == "invalid"
    chk.count(nontrivial=nontrivial)
    detail = {"abstract": c, "value": value, "concrete": conc or cid,
              "observed": {k: res.get(k) for k in ("outcome", "exit", "report", "error")}}
    if res["outcome"] in ("panic", "hang", "abort"):
        chk.violation("%s: %s=%r crashes: %s" % (via, c["kind"], value, (res.get("error") or "")[:200]), detail)
        return
    if c["verdict"] == "gray":
        chk.gray += 1
        return
    if c["verdict"] == "invalid":
        if res["outcome"] != "error" or res["exit"] == 0 or not (res.get("error") or "").strip():
            chk.violation("%s: malformed %s value %r was not rejected (outcome=%s exit=%s)" % (
                via, c["kind"], value, res["outcome"], res["exit"]), detail)
        return
    # valid
    if res["outcome"] != "ok":
        chk.violation("%s: well-formed %s value %r was rejected: %s" % (via, c["kind"], value, (res.get("error") or "")[:200]), detail)
        return
    if c["kind"] == "count":
        op, n = OPS[c["meaning"]["op"]], c["meaning"]["n"]
        ok = {"<": 3 < n, "<=": 3 <= n, "==": 3 == n, ">=": 3 >= n, ">": 3 > n}[op]
        diags = [d for ds in (res["report"] or {}).values() for d in ds if d["code"] == "line-count" and "subj" in d["message"]]
        if ok == bool(diags):
            chk.violation("%s: line-count=%r on a 3-line block: %d violations" % (via, value, len(diags)), detail)
    if c["kind"] == "sev":
        want = {"error": 1, "Warning": 2, "INFO": 3, "hint": 4}[c["toks"][0]]
        diags = [d for ds in (res["report"] or {}).values() for d in ds if d["code"] == "keep-unique" and "subj" in d["message"]]
        if len(diags) != 1 or diags[0]["severity"] != want:
            chk.violation("%s: severity=%r: diagnostics %s" % (via, value, json.dumps(diags)[:200]), detail)


def explicit_battery(chk, wd, lua_ok):
    """The malformations of the statement that are not attribute grammars."""
    def w(name, text):
        p = os.path.join(wd, name)
        with open(p, "w") as f:
            f.write(text)
        return p
    empty = w("empty.lua", "")
    syntax = w("syntax.lua", "function validate(ctx, content\n return nil end\n")
    noval = w("noval.lua", "function check(ctx, content) return nil end\n")
    nonstr = w("nonstr.lua", "function validate(ctx, content) return 42 end\n")
    os.makedirs(os.path.join(wd, "adir.lua"), exist_ok=True)
    bad = [
        ("numeric: two different non-numeric keys", ['# <block name="subj" keep-sorted keep-sorted-format="numeric">', "abc", "abd", "# </block>"]),
        ("numeric: two equal non-numeric keys", ['# <block name="subj" keep-sorted keep-sorted-format="numeric">', "TBD", "TBD", "# </block>"]),
        ("numeric: number then word", ['# <block name="subj" keep-sorted keep-sorted-format="numeric">', "1", "abc", "# </block>"]),
        ("numeric: word then number", ['# <block name="subj" keep-sorted="desc" keep-sorted-format="numeric">', "abc", "1", "# </block>"]),
        ("numeric: equal non-numeric keys from a pattern group",
         ['# <block name="subj" keep-sorted keep-sorted-format="numeric" keep-sorted-pattern="p=(?P<value>\\S+)">', "p=TBD", "p=TBD", "p=TBD", "# </block>"]),
        ("numeric: empty-looking key", ['# <block name="subj" keep-sorted keep-sorted-format="numeric" keep-sorted-pattern="p=(?P<value>\\S*)">', "p=", "p=", "# </block>"]),
        ("lua: empty path", ['# <block name="subj" check-lua="">', "c", "# </block>"]),
        ("lua: blank path", ['# <block name="subj" check-lua="  ">', "c", "# </block>"]),
        ("lua: missing file", ['# <block name="subj" check-lua="%s">' % os.path.join(wd, "nope.lua"), "c", "# </block>"]),
        ("lua: directory", ['# <block name="subj" check-lua="%s">' % os.path.join(wd, "adir.lua"), "c", "# </block>"]),
        ("lua: empty script", ['# <block name="subj" check-lua="%s">' % empty, "c", "# </block>"]),
        ("lua: syntax error", ['# <block name="subj" check-lua="%s">' % syntax, "c", "# </block>"]),
        ("lua: no validate", ['# <block name="subj" check-lua="%s">' % noval, "c", "# </block>"]),
        ("lua: non-string result", ['# <block name="subj" check-lua="%s">' % nonstr, "c", "# </block>"]),
        ("lua: bad pattern", ['# <block name="subj" check-lua="%s" check-lua-pattern="(">' % lua_ok, "c", "# </block>"]),
        ("ai: empty condition", ['# <block name="subj" check-ai="">', "c", "# </block>"]),
        ("ai: blank condition", ['# <block name="subj" check-ai="   ">', "c", "# </block>"]),
        ("ai: missing key", ['# <block name="subj" check-ai="must be fine">', "c", "# </block>"]),
        ("ai: missing key, empty block", ['# <block name="subj" check-ai="must be fine">', "# </block>"]),
        ("ai: missing key, pattern without match", ['# <block name="subj" check-ai="must be fine" check-ai-pattern="NOMATCH[0-9]">', "c", "# </block>"]),
        ("ai: missing key, blank content", ['# <block name="subj" check-ai="must be fine">', "   ", "# </block>"]),
        ("ai: bad pattern", ['# <block name="subj" check-ai="must be fine" check-ai-pattern="(">', "c", "# </block>"]),
    ]
    good = [
        ("numeric: single non-numeric key is hedged", ['# <block name="subj" keep-sorted keep-sorted-format="numeric">', "abc", "# </block>"], None),
        ("numeric ok", ['# <block name="subj" keep-sorted keep-sorted-format="numeric">', "-3", "2", "10", "# </block>"], "ok"),
        ("lua ok", ['# <block name="subj" check-lua="%s">' % lua_ok, "c", "# </block>"], "ok"),
        ("bad severity without a violation is hedged", ['# <block name="subj" keep-unique severity="fatal">', "a", "b", "# </block>"], None),
        ("bad regex without content is hedged", ['# <block name="subj" keep-unique="("></block>'], None),
    ]
    cases, meta = [], {}
    k = 0
    for what, subj in bad:
        for pos in range(3):
            for tf in (0, 1):
                f1, f2 = list(HEALTHY[:2]), list(HEALTHY[2:])
                (f1 if tf == 0 else f2).insert([0, 1, 2][pos], subj)
                cid = "x%d" % k
                k += 1
                cases.append({"id": cid, "files": {"f1.py": "\n".join("\n".join(b) for b in f1) + "\n",
                                                   "f2.py": "\n".join("\n".join(b) for b in f2) + "\n"},
                              "diff": None, "args": [], "terminal": True,
                              "env": {"BLOCKWATCH_AI_API_URL": "http://127.0.0.1:9/v1"}})
                meta[cid] = (what, "invalid")
    # the same malformed blocks reached through a diff: touched only in their start tag, or in their content
    for what, subj in bad:
        for touch in ("tag", "content"):
            if touch == "content" and len(subj) < 3:
                continue
            f1 = list(HEALTHY[:2])
            f1.insert(1, subj)
            first = len(HEALTHY[0]) + 1                    # line of the subject's start tag
            ln = first if touch == "tag" else first + 1
            text = "\n".join("\n".join(b) for b in f1) + "\n"
            cid = "x%d" % k
            k += 1
            cases.append({"id": cid, "files": {"f1.py": text}, "args": [], "terminal": False,
                          "diff": "diff --git a/f1.py b/f1.py\n--- a/f1.py\n+++ b/f1.py\n@@ -%d +%d @@\n-old text\n+%s\n" % (ln, ln, text.split("\n")[ln - 1]),
                          "env": {"BLOCKWATCH_AI_API_URL": "http://127.0.0.1:9/v1"}})
            meta[cid] = ("%s (diff touches the %s only)" % (what, touch), "invalid")
    for what, subj, want in good:
        cid = "x%d" % k
        k += 1
        cases.append({"id": cid, "files": {"f1.py": "\n".join("\n".join(b) for b in [subj] + HEALTHY[:2]) + "\n"},
                      "diff": None, "args": [], "terminal": True, "env": {}})
        meta[cid] = (what, want)
    res = vlib.run_cli(cases)
    for c in cases:
        what, want = meta[c["id"]]
        r = res[c["id"]]
        chk.count(nontrivial=True)
        detail = {"what": what, "concrete": c, "observed": {k2: r.get(k2) for k2 in ("outcome", "exit", "report", "error")}}
        if r["outcome"] in ("panic", "hang", "abort", "garbled", "other"):
            chk.violation("explicit: %s: crash or garbage (%s)" % (what, r["outcome"]), detail)
        elif want == "invalid":
            if r["outcome"] != "error" or r["exit"] == 0 or len((r.get("error") or "").strip()) < 10:
                chk.violation("explicit: %s: not rejected (outcome=%s exit=%s)" % (what, r["outcome"], r["exit"]), detail)
        elif want == "ok":
            if r["outcome"] != "ok":
                chk.violation("explicit: %s: well-formed rule rejected: %s" % (what, (r.get("error") or "")[:200]), detail)
        else:
            chk.gray += 1
