"""C11 exit status and report follow the diagnostics and their severity: Run.tla (NoLostNoDup,
ExitIffError, SilentWhenClean) + scenario replay through the CLI + TraceRun/TraceDetect."""
import json

import vlib
from props import runreplay as rr

LEVEL = "model_checking"


def run(chk):
    quick = chk.tier == "quick"
    chk.rule = ("TLC explores Run.tla (threads per sync validator, tokio tasks per async validator and per block, "
                "join orders, early returns) for every outcome assignment and interleaving within the bounds and emits "
                "each assignment with the verdict all interleavings must produce; each assignment is realised as a "
                "repository (two files, rules violating or not, severities in every spelling) and run through the CLI; "
                "recorded hook traces are validated by TraceRun.tla/TraceDetect.tla; non-trivial = scenario with a "
                "diagnostic or a failing validator")
    rr.check_invariants(chk, dict(NSync=2, NLua=2, NAi=1) if quick else dict(NSync=3, NLua=2, NAi=2), "C11")
    scns = rr.gen_scenarios(chk, dict(NSync=3, NLua=1, NAi=1) if quick else dict(NSync=4, NLua=1, NAi=1), "C11")
    chk.exhaustive = True
    items = rr.replay(chk, scns, "c11-", trace_sample=60 if quick else 1200, sevmix=True)
    # several diagnostics with the same code at the same range (one per unsatisfied reference) all appear
    mcases = []
    for k, refs in enumerate([":n1, :n2", ":n1, :n1, other.py:n3", "f2.py:x,:y,:z,:y"]):
        nrefs = refs.count(",") + 1
        text = '# <block name="src%d" affects="%s" keep-unique>\ndup\ndup\n# </block>\n' % (k, refs)
        mcases.append({"id": "multi%d" % k, "files": {"m.py": text}, "args": [], "terminal": False, "_n": nrefs,
                       "diff": "diff --git a/m.py b/m.py\n--- a/m.py\n+++ b/m.py\n@@ -2 +2 @@\n-old\n+dup\n"})
    mres = vlib.run_cli([{k: v for k, v in c.items() if k != "_n"} for c in mcases])
    for c in mcases:
        r = mres[c["id"]]
        chk.count(nontrivial=True)
        ds = [d for d in (r.get("report") or {}).get("m.py", [])]
        na = sum(1 for d in ds if d["code"] == "affects")
        nu = sum(1 for d in ds if d["code"] == "keep-unique")
        if r["outcome"] != "ok" or na != c["_n"] or nu != 1 or r["exit"] != 1:
            chk.violation("a block with %d unsatisfied affects references and a duplicate line: %d affects and %d keep-unique "
                          "diagnostics reported (every violation must appear exactly once)" % (c["_n"], na, nu),
                          {"concrete": {k: v for k, v in c.items() if k != "_n"},
                           "observed": {k: r.get(k) for k in ("outcome", "exit", "report")}})
    # many async results: 12 scripted blocks over two files, four severity spellings, each reported once
    import os
    wd = vlib.subdir("c11-many")
    script = os.path.join(wd, "no.lua")
    open(script, "w").write('function validate(ctx, content) return "no " .. content end\n')
    sev = ["", ' severity="warning"', ' severity="INFO"', ' severity="Hint"']
    f1 = "".join('# <block name="a%d" check-lua="%s"%s>\nbody%d\n# </block>\n' % (k, script, sev[k % 4], k) for k in range(7))
    f2 = "".join('# <block name="b%d" check-lua="%s"%s>\nbody%d\n# </block>\n' % (k, script, sev[(k + 1) % 4], k) for k in range(5))
    for rep in range(3):
        r = vlib.run_cli_one({"id": "many", "files": {"one.py": f1, "two.py": f2}, "diff": None, "args": [], "terminal": True,
                              "env": {"TOKIO_WORKER_THREADS": str([1, 4, 16][rep])}})
        chk.count(nontrivial=True)
        ds = [(f, d["range"]["start"]["line"], d["severity"]) for f, dl in (r.get("report") or {}).items() for d in dl]
        want = [("one.py", 1 + 3 * k, (k % 4) + 1) for k in range(7)] + [("two.py", 1 + 3 * k, ((k + 1) % 4) + 1) for k in range(5)]
        if r["outcome"] != "ok" or sorted(ds) != sorted(want) or r["exit"] != 1:
            chk.violation("12 scripted blocks each returning a string: %d diagnostics reported, exit %s" % (len(ds), r["exit"]),
                          {"files": {"one.py": f1, "two.py": f2}, "observed": {k: r.get(k) for k in ("outcome", "exit", "report")}})
    # `list` prints the selected blocks as one JSON object on stdout and exits 0, whatever the rules say
    sids = sorted(items)
    chk.rng.shuffle(sids)
    lcases = []
    for sid in sids[:150 if quick else 1000]:
        scn, case, expected = items[sid][:3]
        lcases.append(dict(case, id="L" + sid, args=["list"]))
    lres = vlib.run_cli(lcases)
    for c in lcases:
        r = lres[c["id"]]
        chk.count(nontrivial=False)
        want = sum(t.count("<block") for t in c["files"].values())
        got = sum(len(v) for v in (r.get("list") or {}).values()) if r["outcome"] == "ok" else -1
        if r["outcome"] != "ok" or r["exit"] != 0 or got != want or (r.get("stderr") or "").strip():
            chk.violation("list mode: exit=%s, %s of %s blocks listed, stderr=%r" % (r["exit"], got, want, (r.get("stderr") or "")[:200]),
                          {"concrete": c, "observed": {k: r.get(k) for k in ("outcome", "exit", "list", "stderr")}})
    # `list` shows every selected block, also when several start on one source line (side by side or nested)
    shapes = {
        "side.ts": '/* <block name="a" keep-sorted> */ x /* </block> */ /* <block name="b"> */ y /* </block> */\nconst z = 1;\n'
                   '// <block name="c">\nz\n// </block>\n',
        "nest.rs": '/* <block name="o"> */ /* <block name="i" keep-unique> */ /* <block name="j"> */\nv\n/* </block> */ /* </block> */\n/* </block> */\n',
        "doc.md": '<!-- <block name="m1"> --> text <!-- </block> --> <!-- <block name="m2"> --> text <!-- </block> -->\n',
        "one.py": '# <block name="p1"><block name="p2"><block name="p3">\nx\n# </block></block></block>\n',
    }
    for mode in ("scan", "diff"):
        diff = None
        if mode == "diff":
            diff = "".join("diff --git a/%s b/%s\n--- a/%s\n+++ b/%s\n@@ -1 +1 @@\n-old\n+%s\n" % (f, f, f, f, t.split("\n")[0]) for f, t in shapes.items())
        r = vlib.run_cli_one({"id": "sameline-" + mode, "files": shapes, "diff": diff, "args": ["list"], "terminal": diff is None})
        chk.count(nontrivial=True)
        got = {f: sorted(b["name"] for b in bl) for f, bl in (r.get("list") or {}).items()}
        want = {"side.ts": ["a", "b", "c"] if mode == "scan" else ["a", "b"], "nest.rs": ["i", "j", "o"], "doc.md": ["m1", "m2"], "one.py": ["p1", "p2", "p3"]}
        if r["outcome"] != "ok" or r["exit"] != 0 or got != want:
            chk.violation("list mode (%s), several blocks starting on one line: listed %s, written %s" % (mode, got, want),
                          {"concrete": {"files": shapes, "diff": diff, "args": ["list"]}, "observed": {k: r.get(k) for k in ("outcome", "exit", "list", "stderr")}})
    # ... and when nothing is selected it still prints one JSON object ({}), in every way of selecting nothing
    empties = [({"x.py": "x = 1\n", "lib/y.py": "y = 2\n"}, None, ["list"]), ({"x.py": "x = 1\n"}, None, ["list", "lib/**"]),
               ({"x.py": '# <block name="b">\nx\n# </block>\n'}, "", ["list"]),
               ({"x.py": '# <block name="b">\nx\n# </block>\nz = 1\n'}, "diff --git a/x.py b/x.py\n--- a/x.py\n+++ b/x.py\n@@ -4 +4 @@\n-z = 0\n+z = 1\n", ["list"])]
    for k, (files, diff, args) in enumerate(empties):
        r = vlib.run_cli_one({"id": "emptylist%d" % k, "files": files, "diff": diff, "args": args, "terminal": diff is None})
        chk.count(nontrivial=True)
        if r["outcome"] != "ok" or r["exit"] != 0 or r.get("list") != {}:
            chk.violation("list mode with nothing selected: outcome %s, exit %s, stdout %r (one JSON object expected)" % (
                r["outcome"], r["exit"], (r.get("stdout") or "")[:100]), {"concrete": {"files": files, "diff": diff, "args": args}})
