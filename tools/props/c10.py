"""C10 every diagnostic points at the text it is about: Ranges.tla (reported vs true range over
comment layouts x key placement) + rendering of every case with by-construction byte positions."""
import json
import os

import vlib
from fake_openai import FakeOpenAI
from props import rules_common as rc

LEVEL = "model_checking"


class Skip(Exception):
    pass


def comment_lines(lay, tag, ind, stray=False):
    """(see below) -- `stray` puts a non-tag '<' before the tag inside the same comment"""
    cl = _comment_lines(lay, tag, ind)
    if stray and lay["form"] in ("hash", "mlmid", "mllast", "xml", "cblock", "xmlli", "xmlbq", "divli"):
        k = lay["tagl"]
        cl[k] = cl[k].replace(tag, "i < j " + tag, 1) if lay["form"] not in ("cinline",) else cl[k]
    return cl


def _comment_lines(lay, tag, ind):
    """Start-tag comment as file lines; the tag sits on line lay['tagl'], the comment continues
    lay['more'] lines after it, and (inline layouts) ends at column lay['cend'] of its last line."""
    form, sp = lay["form"], " " * ind
    if form == "hash":
        return [sp + "# note " + tag + " note"]
    if form == "trail":
        return ["x = 1  # " + tag]
    if form == "cblock":
        return [sp + "/* " + tag + " */"]
    if form == "cinline":
        s = "/* " + tag
        return [s + " " * (lay["cend"] - 2 - len(s)) + "*/"]
    if form == "mltop":
        return ["/* " + tag] + ["   more text %d" % k for k in range(lay["more"] - 1)] + ["   more */"]
    if form == "mltopinline":
        return ["/* " + tag, "   more   */"]
    if form == "mlmid":
        return ["/* text", "   " + tag, "   more */"]
    if form == "mllast":
        return ["/* a", "   b", "   " + tag + " */"]
    if form in ("xml", "xmlli", "xmlbq", "divli", "divbq", "div"):
        return [sp + "<!-- " + tag + " -->"]
    if form in ("mxml", "mxmlli", "mxmlbq"):
        return ["<!--", tag, "-->"]
    if form == "mdparen":
        return [sp + "[//]: # (" + tag + ")"]      # up to three blanks before the label are still a link definition
    raise ValueError(form)


RULE = {"sortedre": 'keep-sorted="desc" keep-sorted-pattern="id: (?P<value>\\S+)"', "pattern": 'line-pattern="^[a-z ]+$"', "unique": 'keep-unique="id: (?P<value>\\S+)"', "sorted": 'keep-sorted="desc"',
        "count": 'line-count="<0"', "affects": 'affects=":nothere"'}


def render(case, kind, mb, ci):
    lay, j, koff, klen = case["lay"], case["j"], case["koff"], case["klen"]
    form = lay["form"]
    key = "Q" * klen
    cont = lay.get("cont", 0)
    koff -= cont          # columns inside the container; the prefix is added to every line at the end
    div = form in ("divli", "divbq", "div")
    md = form in ("xml", "mxml", "mdparen") or cont > 0 or div
    py = form in ("hash", "trail")
    name = "r.md" if md else ("r.py" if py else "r.rs")
    rule = RULE.get(kind) or ('check-lua="%s"' % case["_script"] if kind == "lua" else 'check-ai="c [[%s]]"' % case["_key"])
    tag = '<block name="r" %s>' % rule
    ind = ci % 3 if form in ("hash", "cblock", "xml") else (ci % 4 if form == "mdparen" else 0)
    pre = [("v%d = 1" % k) if py else "" if md else ("static P%d: i32 = 1;" % k) for k in range(lay["pre"])]
    if cont or div:
        pre = ["intro %d" % k for k in range(lay["pre"])]
        if div:
            pre[-1] = "<div>"         # the HTML block starts here; the comment is on its second line
    cl = comment_lines(lay, tag, ind, stray=(ci % 3 == 1))
    assert len(cl) - 1 - lay["tagl"] == lay["more"], (form, len(cl))
    if lay["inline"]:
        assert len(cl[-1]) == lay["cend"], (form, len(cl[-1]), lay["cend"])
    lines = pre + cl
    tag_idx = len(pre) + lay["tagl"]
    last = len(lines) - 1
    keyed = kind in ("pattern", "unique", "sorted", "sortedre")
    # text of content lines 0..4 (line 0 = rest of the comment's last line)
    content = {k: None for k in range(0, 5)}
    if keyed:
        if kind in ("unique", "sortedre"):
            if form == "mdparen":
                raise Skip()       # parentheses of the regex would end the ( ) title of the Markdown comment
            if koff < 4 or j == 0 or (j == 1 and not lay["inline"]):
                raise Skip()
            fill = koff - 4
            if j == 0:
                raise Skip()
            filler = "é" * fill if mb else " " * fill
            if not mb and fill >= klen + 1 and ci % 2 == 0:
                filler = key + " " * (fill - klen)       # the key's text also occurs earlier in the line, outside the match
            content[j] = filler + "id: " + key
            for k in range(1, 5):
                if k != j:
                    content[k] = ("id: u%d" % k) if kind == "unique" else ("id: A" if k < j else "id: 0%d" % k)
            # the earlier occurrence (unique) / the smaller predecessor (sorted desc)
            content[j - 1] = (" " if j - 1 == 0 else "") + "id: " + (key if kind == "unique" else "A")
        else:
            if mb or form.endswith("bq"):
                raise Skip()       # the key of these validators is the whole trimmed line (in a block quote it includes the "> ")
            if j == 0:
                if koff <= lay["cend"]:
                    raise Skip()
                content[0] = " " * (koff - lay["cend"]) + key
            else:
                content[j] = " " * koff + key
            for k in range(1, 5):
                if content[k] is None:
                    content[k] = "ok" if kind == "pattern" else ("A" if k < j else "0%d" % k)
            if kind == "sorted":
                if j == 0 or (j == 1 and not lay["inline"]):
                    raise Skip()       # the first key has no predecessor
                if j == 1:
                    content[0] = " A"
    else:
        for k in range(1, 5):
            content[k] = "c%d" % k
    if content[0] is not None:
        if not lay["inline"]:
            raise Skip()
        lines[last] = lines[last] + content[0]
    if keyed and j >= 1 and ci % 2 == 1:
        content[j] = content[j] + "   "          # blanks after the key are not part of it
    lines += [content[k] for k in range(1, 5)]
    lines += (["", "[//]: # (</block>)"] if form == "mdparen" else ["<!-- </block> -->"]) if md else (["# </block>"] if py else ["/* </block> */"])
    if div:
        lines.append("</div>")
    if cont:
        bq = form.endswith("bq")
        lines = [("> " if bq else ("- " if k == 0 else "  ")) + l for k, l in enumerate(lines)]
        koff += cont
    text = "\n".join(lines) + "\n"
    kidx = last + j
    kline = lines[kidx]
    true_key = None
    if keyed:
        k0 = kline.rindex(key)
        true_key = {"line": kidx + 1, "c0": len(kline[:k0].encode()) + 1, "c1": len(kline[:k0].encode()) + len(key)}
        # the concretiser and the specification must agree on where the key is (cells)
        if (kidx + 1, k0) != (case["true"]["line"], koff):
            raise vlib.ToolError("concretiser/spec disagree on the key position: %s vs %s" % ((kidx + 1, k0), case["true"]))
    tline = lines[tag_idx]
    t0 = tline.index("<block")
    t1 = tline.index(">", t0)
    true_tag = {"l0": tag_idx + 1, "c0": len(tline[:t0].encode()) + 1, "l1": tag_idx + 1, "c1": len(tline[:t1].encode()) + 1}
    return name, text, true_key, true_tag, lines


def run(chk):
    quick = chk.tier == "quick"
    chk.rule = ("TLC enumerates every comment layout of MC_C10 (line comment, trailing comment, block comment, content on "
                "the tag's line, tag on the first / middle / last line of a multi-line comment, comment continuing 1..2 lines "
                "after the tag, HTML and Markdown comments, 0..2 lines before) x content line of the offending key x key "
                "column x key length and checks the range arithmetic; every case is rendered for sort / unique(regex key in "
                "the middle of a line) / pattern violations, with ASCII and multi-byte text before the key, and for "
                "line-count / Lua / AI / affects violations (range = start tag); non-trivial = every rendered case")
    res = vlib.run_tlc("MC_C10", cfg_text=rc.set_consts("MC_C10", Wide="FALSE" if quick else "TRUE",
                                                          KeyOffs="{0, 2, 5, 121, 124, 13, 16}" if quick else "{0, 1, 2, 3, 5, 8, 121, 122, 124, 13, 14, 16, 40}"),
                       timeout=900)
    chk.add_tlc(res, "MC_C10")
    chk.exhaustive = True
    wd = vlib.subdir("c10")
    script = os.path.join(wd, "no.lua")
    open(script, "w").write('function validate(ctx, content) return "no" end\n')
    fake = FakeOpenAI()
    try:
        batch, meta = [], {}
        ci = 0
        for c in res.cases:
            for kind in ("pattern", "unique", "sorted", "sortedre", "count", "lua", "ai", "affects"):
                for mb in ((False, True) if kind in ("pattern", "unique", "sortedre") else (False,)):
                    if kind in ("count", "lua", "ai", "affects") and (c["j"], c["koff"], c["klen"]) != (2, 2, 1) and \
                            not (c["lay"]["inline"] and (c["j"], c["klen"]) == (0, 1) and c["koff"] in (121, 13)):
                        continue   # tag-range validators do not depend on the key placement
                    cc = dict(c, _script=script, _key="c10-%d" % ci)
                    try:
                        name, text, tk, tt, lines = render(cc, kind, mb, ci)
                    except Skip:
                        continue
                    fake.behaviour["c10-%d" % ci] = {"reply": "not good"}
                    cid = "r%d" % ci
                    case = {"id": cid, "files": {name: text}, "diff": None, "args": [], "terminal": True,
                            "env": {"BLOCKWATCH_AI_API_URL": fake.url, "BLOCKWATCH_AI_API_KEY": "k"}}
                    if kind == "affects":
                        # modify content line (the last content line) so that the block counts as modified
                        ln = len(lines) - 1 - (1 if lines[-1].endswith("</div>") else 0)
                        case.update(terminal=False, diff="diff --git a/%s b/%s\n--- a/%s\n+++ b/%s\n@@ -%d +%d @@\n-old\n+%s\n" % (
                            name, name, name, name, ln, ln, lines[ln - 1]))
                    batch.append(case)
                    meta[cid] = (c, kind, mb, tk, tt)
                    ci += 1
        results = vlib.run_bwexec(batch, env={"BLOCKWATCH_AI_API_URL": fake.url, "BLOCKWATCH_AI_API_KEY": "k"})
        code_of = {"sortedre": "keep-sorted", "pattern": "line-pattern", "unique": "keep-unique", "sorted": "keep-sorted", "count": "line-count",
                   "lua": "check-lua", "ai": "check-ai", "affects": "affects"}
        tally = {}
        for case in batch:
            c, kind, mb, tk, tt = meta[case["id"]]
            r = results[case["id"]]
            chk.count(nontrivial=True)
            name = list(case["files"])[0]
            detail = {"abstract": c, "validator": kind, "multibyte": mb, "concrete": case,
                      "observed": {k: r.get(k) for k in ("outcome", "exit", "report", "error")}}
            if r["outcome"] != "ok":
                chk.violation("%s/%s: run failed: %s" % (c["lay"]["form"], kind, (r.get("error") or "")[:200]), detail)
                continue
            ds = [d for d in (r["report"] or {}).get(name, []) if d["code"] == code_of[kind]]
            if len(ds) != 1:
                chk.violation("%s/%s: %d diagnostics, one expected" % (c["lay"]["form"], kind, len(ds)), detail)
                continue
            rg = ds[0]["range"]
            got = (rg["start"]["line"], rg["start"]["character"], rg["end"]["line"], rg["end"]["character"])
            if kind in ("pattern", "unique", "sorted", "sortedre"):
                want = (tk["line"], tk["c0"], tk["line"], tk["c1"])
            else:
                want = (tt["l0"], tt["c0"], tt["l1"], tt["c1"])
            if got != want:
                why = ()
                if kind in ("pattern", "unique", "sorted"):
                    # attribution to R1/R2: the as-first-coded arithmetic of Ranges.tla predicts the observation
                    rep = c["reported"]
                    shift = tk["c0"] - c["true"]["c0"]    # bytes vs cells (multi-byte filler)
                    pred = (rep["line"], rep["c0"] + (shift if c["j"] != 0 else shift), rep["line"], rep["c1"] + shift)
                    if c["true"] != c["reported"] and got[0] == rep["line"]:
                        why = ("R1R2",)
                k = "%s/%s" % (c["lay"]["form"], kind)
                tally[k] = tally.get(k, 0) + 1
                text = case["files"][name].split("\n")
                chk.violation("%s/%s j=%d: diagnostic points at %s, the %s is at %s" % (
                    c["lay"]["form"], kind, c["j"], got, "key" if kind in ("pattern", "unique", "sorted", "sortedre") else "start tag", want),
                    dict(detail, expected=want), explained_by=why)
        chk.notes["mismatches_by_layout"] = tally
        chk.sample({"abstract": meta["r0"][0], "file": batch[0]["files"], "expected_key_range": meta["r0"][3]})
    finally:
        fake.close()
