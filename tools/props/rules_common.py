"""Replay of Rules.tla behaviours (C06-C09) against the real validators.

The spec emits {block, cfg, expect, impl}; this module renders the abstract lines, runs the real
code (in-process for all cases, the CLI for a seeded sample) and compares with `expect` (the
contract).  `impl` (the implementation-shaped prediction) only feeds the DRIFT counter.
"""
import json
import os
import re

import vlib

PREFIX = {"id": "id: ", "kv": "k=", "k": "", "tag": "", "ide": "id:"}
GROUP_RE = r"id: (?P<value>[^ ]+)"
PLAIN_RE = r"k=[^ ]+"
STAR_RE = r"id:(?P<value>[^ ]*)"      # the group may be empty: "id:" alone, or "id: x" (the group stops at the space)
ALT_RE = r"(?:id: (?P<value>[^ ]+)|k=[^ ]+)"   # the value group takes part in one alternative only
ANCH_RE = r"^id: (?P<value>[^ ]+)"              # anchored at the start of the raw line: indented lines do not match
PAT_RE = {"group": GROUP_RE, "plain": PLAIN_RE, "gstar": STAR_RE, "galt": ALT_RE, "ganch": ANCH_RE}
LP = {"lower": "^[a-z]+$", "digit": "[0-9]", "startx": "^x", "min3": "^.{3,}$", "any": ".*", "lower0": "^[a-z]*$", "optx": "^(x.*)?$"}
CODE = {"sorted": "keep-sorted", "unique": "keep-unique", "pattern": "line-pattern", "count": "line-count"}


def key_text(key):
    return "".join(chr(c) for c in key)


def line_text(l, nested_tag=None):
    if l["form"] == "blank":
        return ""
    if l["form"] == "ws":
        return " " * l["indent"]
    if l["form"] == "uws":
        return "\u3000\u00a0" * l["indent"]        # white space, but not ASCII
    if l["form"] == "tag":
        return nested_tag or "# <block></block>"
    sfx = "" if l["sfx"] == 0 else " #%d" % l["sfx"]
    return " " * l["indent"] + PREFIX[l["form"]] + key_text(l["key"]) + sfx + " " * l["trail"]


def key_span(l, pat):
    """(column_start_1based_bytes, text) of the key of concrete line l under extraction mode pat."""
    text = line_text(l)
    if pat == "none":
        t = text.strip()
        start = len(text) - len(text.lstrip())
    elif pat in ("group", "ganch"):
        t = key_text(l["key"])
        start = l["indent"] + len(PREFIX["id"])
    elif pat == "gstar":
        t = key_text(l["key"]) if l["form"] == "ide" else ""
        start = l["indent"] + len(PREFIX["ide"])
    elif pat == "galt" and l["form"] == "id":
        t = key_text(l["key"])
        start = l["indent"] + len(PREFIX["id"])
    else:
        t = PREFIX["kv"] + key_text(l["key"])
        start = l["indent"]
    return len(text[:start].encode()) + 1, t


def spaced(attrs):
    """The same attributes with white space around every '=' that follows an attribute name (the tag grammar allows it)."""
    return re.sub(r'(?<=[a-z])="', ' = "', attrs)


def attrs_for(cfg):
    k = cfg["kind"]
    if k == "sorted":
        a = ' keep-sorted' if cfg["sp"] == "" and cfg.get("bare") else ' keep-sorted="%s"' % cfg["sp"]
        if cfg["pat"] in PAT_RE:
            a += ' keep-sorted-pattern="%s"' % PAT_RE[cfg["pat"]]
        if cfg["fmt"] == "num":
            a += ' keep-sorted-format="numeric"'
        return a
    if k == "unique":
        if cfg["pat"] == "none":
            return " keep-unique"
        return ' keep-unique="%s"' % PAT_RE[cfg["pat"]]
    if k == "pattern":
        return ' line-pattern="%s"' % LP[cfg["lp"]]
    if k == "count":
        sp = {"0": "%s%d", "1": "%s %d", "2": " %s  %d "}[cfg["sp"]]
        return ' line-count="%s"' % (sp % (cfg["op"], cfg["n"]))
    raise ValueError(k)


def render(case, layout="line", pre_lines=0):
    """Returns (file name, text, line_of(j) -> file line of block line j (1-based))."""
    block, cfg = case["block"], case["cfg"]
    attrs = attrs_for(cfg)
    if pre_lines == 2:
        attrs = spaced(attrs)
    pre = "".join("x%d = 1\n" % k for k in range(pre_lines))
    if layout == "line":
        lines = [line_text(l, "# <block name=\"n%d\"> </block>" % j) for j, l in enumerate(block)]
        text = pre + "# <block%s>\n" % attrs + "".join(t + "\n" for t in lines) + "# </block>\n"
        return "f.py", text, (lambda j: pre_lines + 1 + j)
    if layout == "inline":
        # content starts on the tag's own line
        lines = [line_text(l, "/* <block name=\"n%d\"> </block> */" % j) for j, l in enumerate(block)]
        if lines:
            body = " " + lines[0] + "\n" + "".join(t + "\n" for t in lines[1:])
        else:
            body = " "
        text = pre + "/* <block%s> */" % attrs + body + "/* </block> */\n"
        return "f.rs", text, (lambda j: pre_lines + j)
    if layout == "inline2":
        # content starts on the tag's own line AND ends on the end tag's line
        lines = [line_text(l, "/* <block name=\"n%d\"> </block> */" % j) for j, l in enumerate(block)]
        if not lines:
            text = pre + "/* <block%s> */ /* </block> */\n" % attrs
        elif len(lines) == 1:
            text = pre + "/* <block%s> */ %s /* </block> */\n" % (attrs, lines[0])
        else:
            text = pre + "/* <block%s> */ %s\n" % (attrs, lines[0]) + "".join(t + "\n" for t in lines[1:-1]) + lines[-1] + " /* </block> */\n"
        return "f.rs", text, (lambda j: pre_lines + j)
    if layout == "mltag":
        # the start tag spans three lines of one block comment; content starts where that comment ends
        lines = [line_text(l, "/* <block name=\"n%d\"> </block> */" % j) for j, l in enumerate(block)]
        text = pre + "/* <block\n   name=\"ml\"\n  %s> */\n" % attrs + "".join(t + "\n" for t in lines) + "/* </block> */\n"
        return "f.rs", text, (lambda j: pre_lines + 3 + j)
    if layout == "twin":
        # the block nested in an outer block that carries the same rule: where the outer block's extra lines (the inner
        # tags) are harmless for the rule, both blocks report the same line with the same code and range
        lines = [line_text(l, "# <block name=\"n%d\"> </block>" % j) for j, l in enumerate(block)]
        text = pre + "# <block name=\"outer0\"%s>\n# <block name=\"inner\"%s>\n" % (attrs, attrs) + "".join(t + "\n" for t in lines) + \
            "# </block>\n# </block>\n"
        return "f.py", text, (lambda j: pre_lines + 2 + j), (pre_lines + 2, pre_lines + 2 + len(lines))
    if layout == "combo":
        # the block carries a second, unrelated rule as well (its diagnostics are not this property's business)
        extra = ' keep-unique' if cfg["kind"] in ("sorted", "count") else ' keep-sorted'
        lines = [line_text(l, "# <block name=\"n%d\"> </block>" % j) for j, l in enumerate(block)]
        text = pre + "# <block%s%s>\n" % (extra, attrs) + "".join(t + "\n" for t in lines) + "# </block>\n"
        return "f.py", text, (lambda j: pre_lines + 1 + j)
    if layout == "same":
        text = pre + "# <block%s> </block>\n" % attrs
        return "f.py", text, (lambda j: pre_lines + 1)
    raise ValueError(layout)


_selfcheck_cache = set()


def selfcheck_line(l, pat):
    """Asserts with Python's re that the concrete spelling behaves as the spec's KeyOf says."""
    key = (json.dumps(l, sort_keys=True), pat)
    if key in _selfcheck_cache:
        return
    _selfcheck_cache.add(key)
    text = line_text(l)
    if pat == "none":
        return
    rx = re.compile(PAT_RE[pat])
    m = rx.search(text)
    want = {"group": l["form"] == "id", "plain": l["form"] == "kv", "gstar": l["form"] in ("id", "ide"),
            "galt": l["form"] in ("id", "kv"), "ganch": l["form"] == "id" and l["indent"] == 0}[pat]
    if bool(m) != want:
        raise vlib.ToolError("concretiser self-check: %r under %s" % (text, pat))
    if m:
        got = m.group("value") if (pat in ("group", "gstar", "ganch") or (pat == "galt" and m.group("value") is not None)) else m.group(0)
        if got != key_span(l, pat)[1]:
            raise vlib.ToolError("concretiser self-check: key of %r under %s: %r" % (text, pat, got))


def judge(case, res, text, line_of, layout, span=None):
    """Compares one real result with the contract for ONE block of the file (span = (first,last)
    file line of the block; diagnostics outside it belong to other blocks of the same file).
    Returns (status, detail): status in ok | gray | bad."""
    exp, cfg = case["expect"], case["cfg"]
    code = CODE[cfg["kind"]]
    if res["outcome"] in ("panic", "hang", "abort"):
        return "bad", "crash: %s" % res.get("error")
    if exp["v"] == "gray":
        return "gray", None
    if res["outcome"] != "ok":
        return "bad", "run failed (%s): %s" % (res["outcome"], (res.get("error") or "")[:200])
    alld = [d for ds in (res["report"] or {}).values() for d in ds]
    if span is not None:
        alld = [d for d in alld if span[0] <= d["range"]["start"]["line"] <= span[1]]
    diags = [d for d in alld if d["code"] == code]
    other = [d for d in alld if d["code"] != code]
    if layout == "combo":
        other = []          # the second rule on the block reports what it likes
    need = 2 if layout == "twin" else 1
    if other:
        return "bad", "unexpected diagnostics %s" % [d["code"] for d in other]
    if exp["v"] == "ok":
        if diags:
            return "bad", "expected no violation, got %s" % (json.dumps(diags)[:300])
        return "ok", None
    # expected violation
    if len(diags) != need:
        return "bad", "expected exactly %d %s violation(s) for the block at lines %s, got %d" % (need, code, span, len(diags))
    if need == 2 and diags[0]["range"] != diags[1]["range"]:
        return "bad", "nested twin blocks report different places: %s vs %s" % (diags[0]["range"], diags[1]["range"])
    if res["exit"] != 1:
        return "bad", "violation reported but exit=%s" % res["exit"]
    d = diags[0]
    if cfg["kind"] == "count":
        data = d.get("data") or {}
        ok_data = data.get("actual") == exp["actual"] and data.get("op") == cfg["op"] and data.get("expected") == cfg["n"]
        msg = d.get("message", "")
        # (where the three values are carried is the implementation's choice: structured data, or the message text)
        ok_msg = not any(k in data for k in ("actual", "op", "expected")) and cfg["op"] in msg and \
            re.search(r"(?<![0-9])%d(?![0-9])" % exp["actual"], msg) and re.search(r"(?<![0-9])%d(?![0-9])" % cfg["n"], msg)
        if not (ok_data or ok_msg):
            return "bad", "line-count diagnostic %s / %r does not carry actual=%s op=%s bound=%s" % (
                data, msg[:120], exp["actual"], cfg["op"], cfg["n"])
        return "ok", None
    j = exp["at"]
    want_line = line_of(j)
    if d["range"]["start"]["line"] != want_line:
        return "bad", "violation designates line %s, first offending key is on line %s" % (
            d["range"]["start"]["line"], want_line)
    if layout == "line":
        # the designated text must be the offending key (full range precision is C10's subject,
        # in this layout it is unambiguous)
        l = case["block"][j - 1]
        col, ktext = key_span(l, cfg["pat"] if cfg["kind"] != "pattern" else "none")
        fl = text.split("\n")[want_line - 1].encode()
        got = fl[d["range"]["start"]["character"] - 1:d["range"]["end"]["character"]].decode("utf-8", "replace")
        if got != ktext and ktext != "":      # (how an empty key is delimited is left to the implementation)
            return "bad", "range designates %r, offending key is %r" % (got, ktext)
    return "ok", None


PACK = 3   # blocks per generated file: several violating blocks of one validator in one file


def replay(chk, cases, layouts=("line",), cli_sample=0, trace=False, label=""):
    """Runs every case through bwexec under each layout (PACK blocks per file), a sample through the CLI."""
    batch = []
    meta = {}      # file case id -> list of (case, line_of, layout, span)
    concs = {}
    texts = {}
    companions = {}
    n = 0
    for layout in layouts:
        group, gtext, glines = [], "", 0

        def flush():
            nonlocal group, gtext, glines
            if not group:
                return
            cid = "%s%s-%d" % (label, layout, len(batch))
            ext = "py" if layout in ("line", "same", "twin", "combo") else "rs"
            # a companion block of ANOTHER validator that always violates: several validators report on one file
            kind = group[0][0]["cfg"]["kind"]
            comp_code = "line-count" if kind in ("unique", "sorted") else "keep-unique"
            comp_rule = ' line-count="<1"' if comp_code == "line-count" else " keep-unique"
            op, cl = ("# ", "") if ext == "py" else ("/* ", " */")
            comp_line = glines + 1
            gtext += "%s<block name=\"companion\"%s>%s\ncompanion\ncompanion\n%s</block>%s\n" % (op, comp_rule, cl, op, cl)
            companions[cid] = (comp_code, comp_line, comp_line + 3)
            conc = {"id": cid, "files": {"f." + ext: gtext}, "diff": None, "args": [], "terminal": True}
            batch.append(conc)
            meta[cid] = group
            concs[cid] = conc
            texts[cid] = gtext
            group, gtext, glines = [], "", 0

        for ci, case in enumerate(cases):
            if layout == "same" and case["block"]:
                continue
            cf = case["cfg"]
            if cf["pat"] == "ganch" and layout in ("inline", "inline2"):
                continue        # there the first content line starts after the tag's comment: it is never at column 0
            if layout not in ("line", "inline") and len(cases) > 40000 and (ci + len(layout)) % 5:
                continue        # big behaviour sets: the further layouts take every fifth behaviour
            if layout == "twin" and not (cf["kind"] == "unique" or (cf["kind"] == "pattern" and cf["lp"] == "digit")
                                         or (cf["kind"] == "sorted" and cf["dir"] == "asc" and cf["fmt"] == "lex" and cf["pat"] != "gstar"
                                             and case["expect"]["v"] != "gray")):
                continue        # the inner tags must be harmless lines for the outer block's rule ('#' sorts before every key)
            for l in case["block"]:
                selfcheck_line(l, case["cfg"]["pat"])
            pre = ci % 3
            rendered = render(case, layout, pre)
            name, text, line_of = rendered[:3]
            nl = text.count("\n")
            if case["expect"]["v"] == "gray":
                flush()
            off = glines
            span = (off + 1, off + nl) if len(rendered) < 4 else (off + rendered[3][0], off + rendered[3][1])
            group.append((case, (lambda j, lo=line_of, o=off: lo(j) + o), layout, span))
            gtext += text
            glines += nl
            n += 1
            if case["expect"]["v"] == "gray" or len(group) >= PACK:
                flush()
        flush()
    results = vlib.run_bwexec(batch)
    for cid, group in meta.items():
        res = results.get(cid)
        if res is None:
            raise vlib.ToolError("no result for case " + cid)
        for (case, line_of, layout, span) in group:
            status, detail = judge(case, res, texts[cid], line_of, layout, span)
            chk.count(nontrivial=len(case["block"]) >= 2)
            if status == "gray":
                chk.gray += 1
                pred = case["impl"]["v"]
                mine = [d for ds in (res.get("report") or {}).values() for d in ds
                        if d["code"] == CODE[case["cfg"]["kind"]] and span[0] <= d["range"]["start"]["line"] <= span[1]]
                obs = "err" if res["outcome"] == "error" else ("viol" if mine else "ok")
                if pred != obs:
                    chk.drift += 1
            elif status == "bad":
                chk.violation(detail, {"abstract": case, "concrete": concs[cid], "block_lines": span,
                                       "expected": case["expect"],
                                       "observed": {k: res.get(k) for k in ("outcome", "exit", "report", "error")}})
        # the companion block (another validator, same file) is reported exactly once, and the run fails
        if res["outcome"] == "ok":
            ccode, c0, c1 = companions[cid]
            cd = [d for ds in (res["report"] or {}).values() for d in ds if d["code"] == ccode and c0 <= d["range"]["start"]["line"] <= c1]
            if len(cd) != 1:
                chk.violation("the %s block next to the blocks under test yields %d diagnostics (several validators reporting on one file)" % (
                    ccode, len(cd)), {"concrete": concs[cid], "observed": {k: res.get(k) for k in ("outcome", "exit", "report")}})
            if res["exit"] != 1:
                chk.violation("exit status %s with a violating block in the file" % res["exit"], {"concrete": concs[cid]})
    # CLI sample
    if cli_sample:
        ids = sorted(meta)
        chk.rng.shuffle(ids)
        sample = ids[:cli_sample]
        cres = vlib.run_cli([concs[c] for c in sample])
        for cid in sample:
            res = cres[cid]
            for (case, line_of, layout, span) in meta[cid]:
                status, detail = judge(case, res, texts[cid], line_of, layout, span)
                chk.count(nontrivial=False)
                if status == "bad":
                    chk.violation("CLI: " + detail, {"abstract": case, "concrete": concs[cid], "expected": case["expect"],
                                                     "observed": {k: res.get(k) for k in ("outcome", "exit", "report", "error")}})
            r2 = results[cid]
            if (res["outcome"], res["exit"], _norm(res["report"])) != (r2["outcome"], r2["exit"], _norm(r2["report"])):
                chk.violation("CLI and in-process pipeline disagree", {"concrete": concs[cid], "cli": res, "inproc": r2})
    if meta:
        cid = sorted(meta)[len(meta) // 2]
        case, _, layout, _ = meta[cid][0]
        chk.sample({"abstract": case, "file": texts[cid], "layout": layout})
    return n


def _norm(report):
    if not report:
        return {}
    return {f: sorted(json.dumps(d, sort_keys=True) for d in ds) for f, ds in report.items()}


def set_consts(cfg_name, **consts):
    """Writes a copy of spec/mc/<cfg_name>.cfg with constants overridden; returns its path name."""
    src = os.path.join(vlib.SPEC, "mc", cfg_name + ".cfg")
    s = open(src).read()
    for k, v in consts.items():
        s, n = re.subn(r"(?m)^(\s*%s\s*=\s*).*$" % re.escape(k), lambda m: m.group(1) + str(v), s)
        if n != 1:
            raise vlib.ToolError("constant %s not found in %s" % (k, src))
    return s
