"""Replay of Affects.tla behaviours: contexts of blocks with names, touch state and references."""
import json

import vlib

SEP = [", ", ",", " , ", ",  "]
COL = [":", " :", ": ", ":"]


def concretize(case, ci):
    files = {"f1.py": [], "f2.py": []}
    hunks = {"f1.py": [], "f2.py": []}
    meta = []
    for bi, b in enumerate(case["blocks"]):
        refs = SEP[(ci + bi) % 4].join("%s%s%s" % (r["file"], COL[(ci + bi) % 4], r["name"]) for r in b["refs"])
        attrs = ""
        if b["name"] != "-":
            attrs += ' name="%s"' % b["name"]
        if b["refs"]:
            attrs += ' affects="%s"' % refs
        fl = files[b["file"]]
        tagline = len(fl) + 1
        new_tag = '# <block%s v="1">' % attrs
        old_tag = '# <block%s v="0">' % attrs
        fl += [new_tag, "content %d" % bi, "# </block>", "pad%d = 0" % bi]
        if b["mod"] == "content":
            hunks[b["file"]].append("@@ -%d +%d @@\n-old content\n+content %d\n" % (tagline + 1, tagline + 1, bi))
        elif b["mod"] == "tag":
            hunks[b["file"]].append("@@ -%d +%d @@\n-%s\n+%s\n" % (tagline, tagline, old_tag, new_tag))
        meta.append((b["file"], tagline))
    texts = {f: "\n".join(ls) + "\n" for f, ls in files.items()}
    for f in texts:
        if texts[f] == "\n":
            texts[f] = "x = 1\n"
    diff = ""
    for f, hs in hunks.items():
        if hs:
            diff += "diff --git a/%s b/%s\n--- a/%s\n+++ b/%s\n%s" % (f, f, f, f, "".join(hs))
    return texts, diff, meta


def replay(chk, cases, label):
    batch, info = [], {}
    for ci, case in enumerate(cases):
        texts, diff, meta = concretize(case, ci)
        want = sorted((meta[v["b"] - 1][0], meta[v["b"] - 1][1], v["file"], v["name"]) for v in case["viol"])
        for mode, args in (("diff", []), ("glob", ["**"])):
            cid = "%s%d-%s" % (label, ci, mode)
            batch.append({"id": cid, "files": texts, "diff": diff, "args": args, "terminal": False})
            info[cid] = (case, want)
    results = vlib.run_bwexec(batch)
    for c in batch:
        case, want = info[c["id"]]
        r = results[c["id"]]
        chk.count(nontrivial=bool(want) or any(b["mod"] == "content" and b["refs"] for b in case["blocks"]))
        detail = {"abstract": case, "concrete": c, "expected": want, "observed": {k: r.get(k) for k in ("outcome", "exit", "report", "error")}}
        if r["outcome"] != "ok":
            chk.violation("affects run failed (%s): %s" % (r["outcome"], (r.get("error") or "")[:200]), detail)
            continue
        def ref_of(d):
            # which reference the violation is about: from the diagnostic's data, else from its message
            data = d.get("data") or {}
            if "affected_block_file_path" in data and "affected_block_name" in data:
                return data["affected_block_file_path"], data["affected_block_name"]
            for (_, _, tf, tn) in want:
                if "%s:%s" % (tf, tn) in d.get("message", ""):
                    return tf, tn
            return "?", "?"
        got = sorted((f, d["range"]["start"]["line"]) + ref_of(d)
                     for f, ds in (r["report"] or {}).items() for d in ds if d["code"] == "affects")
        if got != want:
            chk.violation("affects violations %s, expected one per unsatisfied reference of a modified block: %s" % (got, want), detail)
        elif r["exit"] != (1 if want else 0):
            chk.violation("exit %s with %d affects violations" % (r["exit"], len(want)), detail)
    if batch:
        chk.sample({"affects_case": info[batch[0]["id"]][0], "files": batch[0]["files"], "diff": batch[0]["diff"]})
