"""C08 pattern: Rules.tla loop vs contract, exhaustive replay."""
import vlib
from props import rules_common as rc

LEVEL = "model_checking"


def run(chk):
    quick = chk.tier == "quick"
    chk.rule = ("TLC enumerates every block of <= MaxLen lines over the MC_C08 alphabet x every configuration; each "
                "behaviour is replayed in-process (and a sample through the CLI); non-trivial = block with >= 2 lines")
    chk.exhaustive = True
    cfg = rc.set_consts("MC_C08", MaxLen=4 if quick else 5)
    res = vlib.run_tlc("MC_C08", cfg_text=cfg, timeout=1500, heap="12g")
    chk.add_tlc(res, "MC_C08 MaxLen=%d" % (4 if quick else 5))
    rc.replay(chk, res.cases, layouts=("line", "inline", "inline2", "mltag", "twin", "combo"), cli_sample=150 if quick else 1000)
    from props import rules_long
    rules_long.run(chk, "pattern", n=300 if quick else 3000)
    chk.assumptions += ["regex spellings of the abstract patterns are asserted against Python's re per line class"]
