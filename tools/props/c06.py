"""C06 keep-sorted: Rules.tla (SortStep loop vs BadSorted contract), exhaustive replay."""
import vlib
from props import rules_common as rc

LEVEL = "model_checking"


def run(chk):
    quick = chk.tier == "quick"
    chk.rule = ("TLC enumerates every block of <= MaxLen lines over the MC_C06 alphabet (lexicographic: 14 line "
                "classes; numeric: 11) x 5 direction spellings x {no pattern, group pattern, plain pattern}; each "
                "behaviour is replayed in-process (and a sample through the CLI); non-trivial = block with >= 2 lines")
    chk.exhaustive = True
    total = 0
    for use_num, maxlen in ((False, 3 if quick else 4), (True, 3 if quick else 4)):
        cfg = rc.set_consts("MC_C06", MaxLen=maxlen, UseNum="TRUE" if use_num else "FALSE")
        res = vlib.run_tlc("MC_C06", cfg_text=cfg, timeout=1500, heap="12g")
        chk.add_tlc(res, "MC_C06 MaxLen=%d UseNum=%s" % (maxlen, use_num))
        total += rc.replay(chk, res.cases, layouts=("line", "inline", "inline2", "mltag", "combo", "twin"), cli_sample=150 if quick else 1000,
                           label="n" if use_num else "l")
    for use_num in (False, True):
        cfg = rc.set_consts("MC_C06", MaxLen=4 if quick else 5, UseNum="TRUE" if use_num else "FALSE", Star="TRUE")
        res = vlib.run_tlc("MC_C06", cfg_text=cfg, timeout=1500, heap="8g")
        chk.add_tlc(res, "MC_C06 Star (keys that may be empty) UseNum=%s" % use_num)
        total += rc.replay(chk, res.cases, layouts=("line", "inline"), cli_sample=50 if quick else 300, label="sn" if use_num else "sl")
    if not quick:
        from props import rules_long
        rules_long.run(chk, "sorted", n=3000)
    else:
        from props import rules_long
        rules_long.run(chk, "sorted", n=300)
    chk.assumptions += ["regex spellings of the abstract patterns are asserted against Python's re per line class",
                        "single-file python layout; other layouts belong to C10"]
