"""C15 only files in scope are examined: Scope.tla (walk + diff loops vs the set-algebra contract,
glob forms written out, one leading b/ removed) + replay on real directory trees through the CLI."""
import json
import os

import vlib
from props import rules_common as rc

LEVEL = "model_checking"


def path_of(p):
    # TLC strings are ASCII: "uname" stands for a name with a non-ASCII letter
    return "/".join(list(p["dirs"]) + [p["base"]]).replace("uname", "sp\u00e4t")


def git_quote(path):
    """The way git writes a path in a diff header (default core.quotePath): C-style quoted when it holds non-ASCII
    bytes, control characters, a double quote or a backslash."""
    raw = path.encode()
    if any(b >= 0x80 or b < 0x20 or b in (0x22, 0x5c) for b in raw):
        esc = {0x22: '\\"', 0x5c: "\\\\", 0x09: "\\t", 0x0a: "\\n"}
        return True, "".join(esc.get(b, chr(b) if 0x20 <= b < 0x80 else "\\%03o" % b) for b in raw)
    return False, path


def header(side, path):
    """'--- a/<path>' / '+++ b/<path>' the way git prints it: quoted if need be, a tab after a name with a space."""
    q, sp = git_quote(path)
    pre = {"-": "--- ", "+": "+++ "}[side]
    ab = {"-": "a/", "+": "b/"}[side]
    if q:
        return pre + '"' + ab + sp + '"' + ("\t" if " " in path else "")
    return pre + ab + path + ("\t" if " " in path else "")


def glob_of(g):
    if g["form"] == "ext":
        return "*." + g["arg"]
    if g["form"] == "dir":
        return "/".join(g["arg"]) + "/**"
    if g["form"] == "name":
        return "**/" + g["arg"]
    if g["form"] == "exactdir":
        return "/".join(g["arg"])
    return path_of(g["arg"])


TREE = ["f.py", "g.rs", "a/f.py", "b/f.py", "b/b/g.py", "a/b/f.rs", "src/m.py", "src/x y/n.rs", "gen/f.py", ".hid/h.py", "hid/h.py", "src/ig.py", "pkg.py/inner.rs", "src/sp\u00e4t f.py"]
CWDS = ["", "a", "src/x y", "b/b", "gen"]


def body(path, in_scope):
    c = "#" if path.endswith(".py") else "//"
    name = path.replace("/", "_").replace(" ", "_").replace(".", "_")
    t = '%s <block name="%s">\nx\n%s </block>\n' % (c, name, c)
    if not in_scope:
        t += '%s <block name="must-not-be-examined">\n' % c
    return t


def run(chk):
    quick = chk.tier == "quick"
    chk.rule = ("TLC enumerates, over a fixed tree (nested directories, directories named a and b, a name with a space, a "
                "hidden and a git-ignored file), every combination of <= MaxGlobs positional globs and <= MaxIgnores ignore "
                "globs from the documented forms (*.ext, dir/**, **/name, exact path), a diff naming <= MaxDiff files, "
                "interactive or not; the walk and diff loops are checked against the set-algebra contract in every file "
                "order; each scenario is materialised (files out of scope carry an unclosed tag, so any leak is an error) "
                "and listed through the CLI from the root or a sub-directory; non-trivial = scenario with a glob, ignore or diff")
    # every order, small bounds
    res = vlib.run_tlc("MC_C15", cfg_text=rc.set_consts("MC_C15", FixS1="TRUE", MaxIgnores=0 if quick else 1), timeout=1800, heap="12g")
    chk.add_tlc(res, "MC_C15 every order")
    cfg = rc.set_consts("MC_C15", MaxGlobs=2, MaxIgnores=1 if quick else 2, MaxDiff=2, AnyOrder="FALSE", FixS1="TRUE")
    res = vlib.run_tlc("MC_C15", cfg_text=cfg, timeout=3000, heap="16g")
    chk.add_tlc(res, "MC_C15 emission")
    scns = res.cases
    chk.rng.shuffle(scns)
    # always include the scenarios around directories named b
    scns.sort(key=lambda c: 0 if any(p["dirs"][:1] in (["b"], [".hid"]) or "uname" in p["base"] for p in c["diff"]) else 1)
    plan = scns[:200] + scns[200:][:(500 if quick else 6000)]
    chk.exhaustive = False
    cases, meta = [], {}
    for i, s in enumerate(plan):
        exp = sorted(path_of(p) for p in s["expected"])
        files = {p: body(p, p in exp) for p in TREE}
        files[".gitignore"] = "src/ig.py\n"
        ign = []
        for g in s["ignores"]:
            ign += ["--ignore", glob_of(g)] if i % 2 else ["--ignore=" + glob_of(g)]
        # every order of subcommand, positional globs and --ignore flags the command line allows
        pos = [glob_of(g) for g in s["globs"]]
        args = [["list"] + pos + ign, ["list"] + ign + pos, ign + ["list"] + pos][i % 3]
        diff = None
        if not s["terminal"]:
            diff = ""
            for p in s["diff"]:
                pp = path_of(p)
                first = files[pp].split("\n")[0]
                if (i + len(diff)) % 3 == 0:
                    # the file was renamed (or copied) and edited: git names the old path on the --- side
                    oldp = "old_place/" + pp.replace("/", "_")
                    diff += ("diff --git a/%s b/%s\nsimilarity index 80%%\nrename from %s\nrename to %s\nindex 1..2 100644\n"
                             "%s\n%s\n@@ -1 +1 @@\n-old\n+%s\n" % (oldp, pp, oldp, pp, header("-", oldp), header("+", pp), first))
                else:
                    diff += "diff --git a/%s b/%s\nindex 1..2 100644\n%s\n%s\n@@ -1 +1 @@\n-old\n+%s\n" % (
                        pp, pp, header("-", pp), header("+", pp), first)
        cid = "s%d" % i
        cases.append({"id": cid, "files": files, "diff": diff, "args": args, "terminal": s["terminal"], "cwd": CWDS[i % len(CWDS)] or None})
        meta[cid] = (s, exp)
    tdir = vlib.subdir("c15-traces")
    res2 = vlib.run_cli(cases, timeout=60, trace_dir=tdir)
    # impl -> spec: the recorded walk / diff loops of a sample of the runs against Scope.tla
    import runtrace
    trs = {}
    for c in cases[:60 if quick else 600]:
        t = runtrace.scope_trace(runtrace.read_events(os.path.join(tdir, "cli-%s.ndjson" % c["id"])))
        if t and res2[c["id"]]["outcome"] == "ok":
            trs[c["id"]] = t
    for tid, (ok, diag, states, rc_) in runtrace.validate_many("TraceScope", trs).items():
        chk.traces += 1
        chk.states += states
        chk.transitions += states
        if not ok:
            if rc_ not in (10, 12, 13) and "TRACE" not in (diag or "") and "nvariant" not in (diag or ""):
                raise vlib.ToolError("TraceScope failed on %s rc=%s\n%s" % (tid, rc_, diag))
            chk.violation("TraceScope rejects the recorded scope loops: %s" % (diag or "")[:300], {"trace": trs[tid]})
    for c in cases:
        s, exp = meta[c["id"]]
        r = res2[c["id"]]
        chk.count(nontrivial=bool(s["globs"] or s["ignores"] or s["diff"]))
        detail = {"abstract": s, "concrete": {k: c[k] for k in ("args", "diff", "terminal", "cwd")}, "expected_files": exp,
                  "observed": {k: r.get(k) for k in ("outcome", "exit", "error")}, "listed": sorted((r.get("list") or {}).keys())}
        if r["outcome"] in ("panic", "hang", "abort", "garbled", "other"):
            chk.violation("crash or garbage", detail)
        elif r["outcome"] != "ok":
            chk.violation("a file outside the scope was examined or a file in scope could not be read: %s" % (r.get("error") or "")[:200], detail)
        else:
            got = sorted((r["list"] or {}).keys())
            if got != exp:
                chk.violation("examined files %s, in scope %s" % (got, exp), detail)
    chk.sample({"abstract": plan[0], "args": cases[0]["args"], "diff": cases[0]["diff"]})
