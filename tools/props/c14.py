"""C14 --enable/--disable select validators without side effects: Flags.tla (accept/reject and the
effective set for every invocation), Detect.tla (exactly the needed effective validators are
instantiated for every visiting order), replay through the CLI on repositories in which each of
the seven validators has 0..n violations, TraceDetect/TraceRun validation."""
import json
import os

import vlib
import runtrace
from fake_openai import FakeOpenAI
from props import rules_common as rc

LEVEL = "model_checking"
ALL = ["affects", "keep-sorted", "keep-unique", "line-pattern", "line-count", "check-ai", "check-lua"]


def make_repo(rng, wd, rid, fake_key_prefix):
    """A repository (two files) + diff in which validator v has counts[v] in 0..2 violations."""
    counts = {v: rng.choice([0, 1, 1, 2]) for v in ALL}
    if all(c == 0 for c in counts.values()):
        counts["keep-unique"] = 1
    log = os.path.join(wd, "lua-calls-%s.log" % rid)
    script = os.path.join(wd, "viol-%s.lua" % rid)
    with open(script, "w") as f:
        f.write('function validate(ctx, content)\n  local h = io.open("%s", "a")\n  if h then h:write(ctx.file .. ":" .. ctx.line .. "\\n") h:close() end\n'
                '  return "lua says no"\nend\n' % log)
    blocks = []   # (lines, needs_diff_line_index or None)
    uid = [0]

    def nm():
        uid[0] += 1
        return "n%d" % uid[0]
    ai = {}
    for v in ALL:
        for k in range(counts[v]):
            sev = rng.choice(["", "", ' severity="warning"'])
            n = nm()
            if v == "affects":
                blocks.append((['# <block name="%s" affects=":nothere"%s>' % (n, sev), "changed_%s" % n, "# </block>"], 1))
            elif v == "keep-sorted":
                blocks.append((['# <block name="%s" keep-sorted%s>' % (n, sev), "b", "a", "# </block>"], None))
            elif v == "keep-unique":
                blocks.append((['# <block name="%s" keep-unique%s>' % (n, sev), "a", "a", "# </block>"], None))
            elif v == "line-pattern":
                blocks.append((['# <block name="%s" line-pattern="^[a-z]+$"%s>' % (n, sev), "ABC", "# </block>"], None))
            elif v == "line-count":
                blocks.append((['# <block name="%s" line-count="<1"%s>' % (n, sev), "x", "# </block>"], None))
            elif v == "check-ai":
                key = "%s-%s" % (fake_key_prefix, n)
                ai[key] = {"reply": "not good " + n}
                blocks.append((['# <block name="%s" check-ai="cond [[%s]]"%s>' % (n, key, sev), "x", "# </block>"], None))
            else:
                blocks.append((['# <block name="%s" check-lua="%s"%s>' % (n, script, sev), "x", "# </block>"], None))
    # a few healthy blocks of every kind so that a validator with 0 violations may still be detected
    for extra in (['# <block name="%s" keep-sorted>' % nm(), "a", "b", "# </block>"],
                  ['# <block name="%s" line-count=">=1">' % nm(), "x", "# </block>"],
                  ['# <block name="%s">' % nm(), "plain", "# </block>"]):
        if rng.random() < 0.7:
            blocks.append((extra, None))
    rng.shuffle(blocks)
    files = {"f1.py": [], "f2.py": []}
    diffs = {"f1.py": [], "f2.py": []}
    for i, (lines, dl) in enumerate(blocks):
        f = "f1.py" if rng.random() < 0.5 else "f2.py"
        start = len(files[f])
        files[f].extend(lines)
        # every block's first content line is "modified" in the diff so that all blocks are in scope
        diffs[f].append(start + 2)
    texts = {f: "\n".join(ls) + "\n" for f, ls in files.items() if ls}
    diff = ""
    for f, lns in diffs.items():
        if not lns:
            continue
        diff += "diff --git a/%s b/%s\n--- a/%s\n+++ b/%s\n" % (f, f, f, f)
        for ln in lns:
            diff += "@@ -%d +%d @@\n-old line %d\n+%s\n" % (ln, ln, ln, files[f][ln - 1])
    return {"files": texts, "diff": diff, "counts": counts, "ai": ai, "log": log}


def diag_set(res):
    out = []
    for f, ds in (res.get("report") or {}).items():
        for d in ds:
            out.append((f, d["code"], d["range"]["start"]["line"], d["severity"]))
    return sorted(out)


def run(chk):
    quick = chk.tier == "quick"
    chk.rule = ("TLC enumerates every -d/-e invocation (<= MaxArgs flags over the seven names plus look-alikes; long "
                "invocations over three names) with the contract verdict (rejected / effective set) and model-checks "
                "Detect.tla for every needs assignment, every effective set and every visiting order; each invocation is "
                "run through the CLI on generated repositories where each validator has 0..2 violations (diff mode, so "
                "affects takes part; glob + diff with one file in scope through the diff only; plain scan; rejected "
                "invocations also with nothing in scope), several times each (fresh HashMap order per process); non-trivial = invocation "
                "that changes the report or is rejected")
    # Detect: exhaustive over needs x -e/-d x visiting order
    cfg = rc.set_consts("MC_Detect", NDets=3, NFiles=2, NBlocks=2) if quick else rc.set_consts("MC_Detect", NDets=4, NFiles=2, NBlocks=2)
    res = vlib.run_tlc("MC_Detect", cfg_text=cfg, timeout=3000, heap="16g", coverage=True)
    chk.add_tlc(res, "MC_Detect")
    if any(res.coverage.get(a, 1) == 0 for a in ("PickFile", "PopDetector", "EndBlock")):
        raise vlib.ToolError("vacuous Detect model")
    invs = []
    for cfgname in ("MC_C14", "MC_C14long"):
        r = vlib.run_tlc("MC_C14", cfg=cfgname, timeout=1200)
        chk.add_tlc(r, cfgname)
        invs.extend(r.cases)
    chk.exhaustive = True
    rng = chk.rng
    wd = vlib.subdir("c14")
    tdir = vlib.subdir("c14-traces")
    fake = FakeOpenAI()
    try:
        nrepos = 4 if quick else 12
        repos = [make_repo(rng, wd, "r%d" % i, "c14r%d" % i) for i in range(nrepos)]
        for r in repos:
            fake.behaviour.update(r["ai"])
        env = {"BLOCKWATCH_AI_API_URL": fake.url, "BLOCKWATCH_AI_API_KEY": "k", "BLOCKWATCH_LUA_MODE": "safe"}
        # baseline (no flags), repeated: must be stable
        base = {}
        cases = []
        for ri, r in enumerate(repos):
            for rep in range(3):
                cases.append({"id": "base-%d-%d" % (ri, rep), "files": r["files"], "diff": r["diff"], "args": [],
                              "terminal": False, "env": env})
            # the same repository asked for in two other ways: a glob that covers only f1.py plus the diff (f2.py is in
            # scope through the diff alone), and a plain scan without a diff
            cases.append({"id": "baseglob-%d" % ri, "files": r["files"], "diff": r["diff"], "args": ["f1.py"], "terminal": False, "env": env})
            cases.append({"id": "basescan-%d" % ri, "files": r["files"], "diff": None, "args": [], "terminal": True, "env": env})
        bres = vlib.run_cli(cases, trace_dir=tdir, timeout=60)
        for ri, r in enumerate(repos):
            for m in ("glob", "scan"):
                b = bres["base%s-%d" % (m, ri)]
                if b["outcome"] != "ok":
                    raise vlib.ToolError("baseline %s run failed: %s" % (m, b.get("error")))
                base[(ri, m)] = diag_set(b)
        for ri, r in enumerate(repos):
            sets = [diag_set(bres["base-%d-%d" % (ri, rep)]) for rep in range(3)]
            if any(bres["base-%d-%d" % (ri, rep)]["outcome"] != "ok" for rep in range(3)):
                raise vlib.ToolError("baseline run failed: %s" % bres["base-%d-0" % ri].get("error"))
            if sets[0] != sets[1] or sets[0] != sets[2]:
                chk.violation("unrestricted runs of the same repository disagree", {"concrete": cases[ri * 3], "runs": sets})
            want = sum(r["counts"].values())
            if len(sets[0]) != want:
                raise vlib.ToolError("generated repository does not yield the planned %d diagnostics: %s" % (want, sets[0]))
            base[ri] = sets[0]
        # invocations
        chosen = list(invs)
        rng.shuffle(chosen)
        # all accepted ones that are not trivially equal plus a sample of rejected ones
        acc = [c for c in chosen if not c["rejected"]]
        rej = [c for c in chosen if c["rejected"]]
        # every one- and two-flag invocation always takes part (in all three modes), longer ones are sampled
        short = [c for c in chosen if len(c["argv"]) <= 2]
        rest_acc = [c for c in acc if len(c["argv"]) > 2]
        rest_rej = [c for c in rej if len(c["argv"]) > 2]
        plan = short + rest_acc[:150 if quick else 2500] + rest_rej[:60 if quick else 1200]
        nshort = len(short)
        cases, meta = [], {}
        reps = 2 if quick else 4
        for i, inv in enumerate(plan):
            ri = i % nrepos
            args = []
            for a in inv["argv"]:
                args += ["-" + a["flag"], a["name"]] if (i + len(args)) % 2 == 0 else ["--%s=%s" % ({"d": "disable", "e": "enable"}[a["flag"]], a["name"])]
            if i % 3 == 1:
                # options that have nothing to do with the selection (a valid extension mapping, an ignore glob that
                # matches nothing) change neither the verdict on the flags nor the report
                extra = [["-E", "pyx=py"], ["--ignore", "nothing/here/**"], ["-E", "pyx=py", "--ignore=nothing/**"]][(i // 3) % 3]
                args = extra + args if (i // 9) % 2 else args + extra
            for rep in range(3 if i < nshort else reps):
                cid = "inv-%d-%d" % (i, rep)
                mode = ("diff", "glob", "scan")[(i // nrepos + rep) % 3]
                case = {"id": cid, "files": repos[ri]["files"], "diff": repos[ri]["diff"], "args": args, "terminal": False, "env": env}
                if inv["rejected"]:
                    # rejection comes before anything else, whatever is (or is not) in scope
                    if mode == "glob":
                        case["diff"] = ""                      # empty diff: no block in scope
                    elif mode == "scan":
                        case.update(files={"notes.txt": "no blocks here\n", "x.py": "x = 1\n"}, diff=None, terminal=True)
                elif mode == "glob":
                    case["args"] = args + ["f1.py"] if rep % 2 else ["f1.py"] + args
                elif mode == "scan":
                    case.update(diff=None, terminal=True)
                cases.append(case)
                meta[cid] = (inv, ri, args, mode)
        # before the rejected runs: remember call counts
        for r in repos:
            if os.path.exists(r["log"]):
                os.remove(r["log"])
        rej_cases = [c for c in cases if meta[c["id"]][0]["rejected"]]
        n_req_before = len(fake.requests)
        rres = vlib.run_cli(rej_cases, timeout=60)
        side_effects = (len(fake.requests) - n_req_before) + sum(1 for r in repos if os.path.exists(r["log"]))
        if side_effects:
            chk.violation("a rejected invocation still ran validators (%d AI requests / Lua call logs)" % side_effects,
                          {"note": "rejection must happen before anything is validated"})
        ares = vlib.run_cli([c for c in cases if not meta[c["id"]][0]["rejected"]], trace_dir=tdir, timeout=60)
        for c in cases:
            inv, ri, args, mode = meta[c["id"]]
            r = (rres if inv["rejected"] else ares)[c["id"]]
            nontrivial = inv["rejected"] or set(inv["effective"]) != set(ALL)
            chk.count(nontrivial=nontrivial)
            detail = {"invocation": inv, "concrete": c, "observed": {k: r.get(k) for k in ("outcome", "exit", "report", "error")}}
            if r["outcome"] in ("panic", "hang", "abort", "garbled", "other"):
                chk.violation("crash or garbage with %s" % args, detail)
                continue
            if inv["rejected"]:
                if r["exit"] == 0 or r["outcome"] == "ok":
                    chk.violation("invocation %s must be rejected, but exit=%s outcome=%s" % (args, r["exit"], r["outcome"]), detail)
                continue
            if r["outcome"] != "ok":
                chk.violation("invocation %s must be accepted, but: %s" % (args, (r.get("error") or "")[:200]), detail)
                continue
            want = [d for d in (base[ri] if mode == "diff" else base[(ri, mode)]) if d[1] in inv["effective"]]
            got = diag_set(r)
            if got != want:
                chk.violation("with %s the report must be the unrestricted report restricted to %s: missing %s, extra %s" % (
                    args, sorted(inv["effective"]), [d for d in want if d not in got], [d for d in got if d not in want]), detail)
            elif r["exit"] != (1 if any(d[3] == 1 for d in want) else 0):
                chk.violation("with %s exit=%s does not agree with the remaining diagnostics" % (args, r["exit"]), detail)
        # traces: every accepted run's detector loop against Detect.tla (sample)
        ids = sorted(c["id"] for c in cases if not meta[c["id"]][0]["rejected"]) + ["base-%d-0" % ri for ri in range(nrepos)]
        rng.shuffle(ids)
        det_tr, run_tr = {}, {}
        for k_, cid in enumerate(ids):
            evs = runtrace.read_events(os.path.join(tdir, "cli-%s.ndjson" % cid))
            d = runtrace.detect_trace(evs)
            if d:
                det_tr[cid] = d        # every recorded detector loop (validated in chunks by one TLC process each)
            if k_ >= (100 if quick else 1000):
                continue               # TraceRun: a sample (one JVM per run)
            r = (ares.get(cid) or bres.get(cid))
            t = runtrace.run_trace(evs, r["exit"], "error" if r["outcome"] == "error" else "ok", bool(r.get("report")), True)
            if t and len(run_tr) < (40 if quick else 400):
                run_tr[cid] = t
        orders = set()
        for cid, d in det_tr.items():
            orders.add(json.dumps([e["fires"] for e in d if e["ev"] == "visit_block"]))
        chk.notes["distinct_visiting_orders_observed"] = len(orders)
        for module, trs in (("TraceDetect", det_tr), ("TraceRun", run_tr)):
            for cid, (ok, diag, states, rc_) in (runtrace.validate_detect(trs) if module == "TraceDetect" else runtrace.validate_many(module, trs)).items():
                chk.traces += 1
                chk.states += states
                chk.transitions += states
                if not ok:
                    if rc_ not in (10, 12, 13) and "TRACE" not in (diag or "") and "Invariant" not in (diag or ""):
                        raise vlib.ToolError("%s failed on %s rc=%s\n%s" % (module, cid, rc_, diag))
                    chk.violation("%s rejects the recorded run %s: %s" % (module, cid, (diag or "")[:300]), {"trace": trs[cid]})
        chk.sample({"invocation": plan[0], "repo_files": repos[0]["files"], "diff": repos[0]["diff"]})
    finally:
        fake.close()
