"""C19 check-ai: request is faithful, reply decides, endpoint faults fail closed.
Run.tla with the endpoint as environment (Send / Return with reply or fault, NoKey before any send):
OneRequest, OneDiagnosticPerString, FaultFailsClosed, FailClosed over every completion order;
scenario replay against a scripted fake endpoint that records every request."""
import json
import os

import vlib
import runtrace
from fake_openai import FakeOpenAI, closed_port_url
from props import runreplay as rr

LEVEL = "model_checking"

NASTY = ['plain text', 'say "hi" and \'bye\'', "back\\slash \\n not a newline", "tab\there", "ключ — значение 😀",
         "line1\nline2\n\n  indented line", "{\"json\": [1, 2, {\"a\": null}]}", "</block-ish> <b>", "%s %d {0}", "é́ combining",
         "x" * 2000]
CONDS = ["must be fine", "mentions 'banana'", "не пусто", "a <b> c & d", "100% {sure}"]
REPLIES_OK = ["OK", "ok", "Ok", "oK", "OK.", "ok."]
REPLIES_BAD = ["not good", "OK but not really", "okay", "O K", "OK..", "The block is empty.\nAdd \"something\".", "KO", "Ok!"]
FAULTS = ["http400json", "http401plain", "http404plain", "badjson", "nochoices", "nullcontent", "closemid", "refuse"]


def post(chk, sid, scn, case, expected, res, events, ai_beh, reqs):
    """Per scenario: request counts against Run!OneRequest."""
    if expected["final"] == "report":
        for key in ai_beh:
            n = len(reqs.get(key, []))
            if n != 1:
                chk.violation("successful run, but %d requests were sent for block %s" % (n, key),
                              {"scenario": scn, "concrete": case})
    else:
        for key in ai_beh:
            if len(reqs.get(key, [])) > 1:
                chk.violation("%d requests for one block (%s)" % (len(reqs[key]), key), {"scenario": scn, "concrete": case})


def fidelity(chk, quick):
    """Requests carry condition and content verbatim; reply spelling decides; faults fail closed."""
    fake = FakeOpenAI()
    rng = chk.rng
    try:
        cases, meta = [], {}
        n = 0
        plan = []
        # reply classes
        for rp in REPLIES_OK:
            plan.append(("ok", rp, None))
        for rp in REPLIES_BAD:
            plan.append(("bad", rp, None))
        for ft in FAULTS:
            plan.append(("fault", None, ft))
        reps = 1 if quick else 4
        for rep in range(reps):
            for (cls, reply, fault) in plan:
                nb = rng.choice([1, 2, 3, 6])
                target = rng.randrange(nb)
                lines, blocks = [], []
                for bi in range(nb):
                    key = "fid%d-%d" % (n, bi)
                    cond = rng.choice(CONDS) + " [[%s]]" % key
                    body = rng.choice(NASTY)
                    mode = rng.choice(["plain", "plain", "group", "nomatch", "empty"])
                    attrs = 'check-ai=\'%s\'' % cond if '"' in cond else 'check-ai="%s"' % cond
                    # a fault is a failure of the run whatever severity the block asks for its diagnostics
                    if cls == "fault" and bi == target and n % 2 == 0:
                        attrs += (' severity="warning"', ' severity="HINT"', ' severity="info"')[n % 3]
                    want = body.strip()
                    if mode == "group":
                        # the extract is sent as matched, surrounding blanks included
                        pad = ("", "  ", " \t")[(n + bi) % 3]
                        body = "v = [" + pad + body.replace("\n", " ").replace("]", ")") + pad[::-1] + "]"
                        attrs += ' check-ai-pattern="v = \\[(?P<value>[^\\]]*)\\]"'
                        want = body[len("v = ["):-1]
                    elif mode == "nomatch":
                        attrs += ' check-ai-pattern="WILLNOTMATCH"'
                        want = ""
                    elif mode == "empty":
                        body = "   "
                        want = ""
                    if bi == target:
                        if cls == "fault":
                            if fault != "refuse":
                                fake.behaviour[key] = {"fault": fault}
                        else:
                            fake.behaviour[key] = {"reply": reply}
                    else:
                        fake.behaviour[key] = {"reply": "OK", "delay": 0.15 if cls == "fault" else 0}
                    tagline = len(lines) + 1
                    lines.append("# <block name=\"b%d\" %s>" % (bi, attrs))
                    lines.extend(body.split("\n"))
                    lines.append("# </block>")
                    blocks.append((key, cond, want, tagline))
                cid = "fid%d" % n
                n += 1
                env = {"BLOCKWATCH_AI_API_URL": closed_port_url() if fault == "refuse" else fake.url,
                       "BLOCKWATCH_AI_API_KEY": "sk-" + cid, "BLOCKWATCH_AI_MODEL": "model-" + cid}
                if n % 2:
                    env["OPENAI_API_KEY"] = "sk-ambient-must-not-be-used"
                cases.append({"id": cid, "files": {"d/ai.py": "\n".join(lines) + "\n"}, "diff": None, "args": [], "terminal": True,
                              "env": env})
                meta[cid] = (cls, reply, fault, blocks, target)
        # missing key: nothing may be sent
        # (the key is BLOCKWATCH_AI_API_KEY and nothing else: an ambient OPENAI_API_KEY, or an empty value, is "missing")
        sev_of = lambda k: ("", ' severity="warning"', ' severity="Info"')[k % 3]
        ambient = [{}, {"OPENAI_API_KEY": "sk-ambient"}, {"BLOCKWATCH_AI_API_KEY": ""},
                   {"OPENAI_API_KEY": "sk-ambient", "OPENAI_ORG_ID": "org", "OPENAI_PROJECT_ID": "proj"},
                   {"OPENAI_API_KEY": "sk-ambient", "BLOCKWATCH_AI_API_KEY": ""}, {"BLOCKWATCH_AI_MODEL": "m"}]
        for k, amb in enumerate(ambient):
            key = "nokey%d" % k
            cid = "nokey%d" % k
            cases.append({"id": cid, "files": {"ai.py": '# <block check-ai="c [[%s]]"%s>\nbody\n# </block>\n' % (key, sev_of(k))}, "diff": None,
                          "args": [], "terminal": True, "env": dict(amb, BLOCKWATCH_AI_API_URL=fake.url)})
            meta[cid] = ("nokey", None, None, [(key, None, None, 1)], 0)
        res = vlib.run_cli(cases, timeout=60)
        with fake.lock:
            reqs = {}
            for r in fake.requests:
                reqs.setdefault(r.get("key"), []).append(r)
        for c in cases:
            cls, reply, fault, blocks, target = meta[c["id"]]
            r = res[c["id"]]
            chk.count(nontrivial=True)
            detail = {"class": cls, "reply": reply, "fault": fault, "concrete": c,
                      "observed": {k: r.get(k) for k in ("outcome", "exit", "report", "error")}}
            if r["outcome"] in ("panic", "hang", "abort", "garbled", "other"):
                chk.violation("crash or garbage (%s) with %s/%s" % (r["outcome"], cls, fault or reply), detail)
                continue
            if cls == "nokey":
                if r["outcome"] != "error" or r["exit"] == 0:
                    chk.violation("missing API key, but the run did not fail", detail)
                if reqs.get(blocks[0][0]):
                    chk.violation("missing API key, but a request was sent", detail)
                continue
            if cls == "fault":
                if r["outcome"] != "error" or r["exit"] == 0:
                    chk.violation("endpoint fault %s on one of %d requests, but the run ended with exit=%s (%s)" % (
                        fault, len(blocks), r["exit"], r["outcome"]), detail)
                if fault != "refuse":
                    key = blocks[target][0]
                    if len(reqs.get(key, [])) != 1:
                        chk.violation("fault %s: %d requests for the faulting block (retries?)" % (fault, len(reqs.get(key, []))), detail)
                continue
            if r["outcome"] != "ok":
                chk.violation("endpoint answered every request, but the run failed: %s" % (r.get("error") or "")[:200], detail)
                continue
            diags = [d for ds in (r["report"] or {}).values() for d in ds if d["code"] == "check-ai"]
            if cls == "ok":
                if diags or r["exit"] != 0:
                    chk.violation("reply %r must yield no diagnostic, got %d" % (reply, len(diags)), detail)
            else:
                tl = blocks[target][3]
                mine = [d for d in diags if d["range"]["start"]["line"] == tl]
                quoted = mine and (reply in mine[0].get("message", "") or reply in [v for v in (mine[0].get("data") or {}).values() if isinstance(v, str)])
                if len(diags) != 1 or len(mine) != 1 or not quoted:
                    chk.violation("reply %r must yield exactly one check-ai diagnostic quoting it on line %d; got %s" % (
                        reply, tl, json.dumps(diags)[:300]), detail)
            # request fidelity for every block of the run
            for (key, cond, want, tl) in blocks:
                rq = reqs.get(key, [])
                if len(rq) != 1:
                    chk.violation("%d requests for block %s (exactly one expected)" % (len(rq), key), detail)
                    continue
                q = rq[0]
                user = "CONDITION:\n%s\n\nBLOCK (formatting preserved):\n%s" % (cond, want)
                problems = []
                if q.get("user") != user:
                    problems.append("user message differs: %r vs expected %r" % ((q.get("user") or "")[:200], user[:200]))
                if q.get("path") != "/v1/chat/completions" or q.get("method") != "POST":
                    problems.append("request line %s %s" % (q.get("method"), q.get("path")))
                if q.get("authorization") != "Bearer " + c["env"]["BLOCKWATCH_AI_API_KEY"]:
                    problems.append("authorization %r" % q.get("authorization"))
                if q.get("model") != c["env"]["BLOCKWATCH_AI_MODEL"]:
                    problems.append("model %r" % q.get("model"))
                if problems:
                    chk.violation("request for block %s is not faithful: %s" % (key, "; ".join(problems)), detail)
        chk.sample({"fidelity_case": cases[0]["files"], "recorded_request_user": (reqs.get(meta["fid0"][3][0][0]) or [{}])[0].get("user")})
    finally:
        fake.close()


def many_blocks(chk, quick):
    """5..12 AI blocks, an immediate fault on one request while the others answer slowly."""
    fake = FakeOpenAI()
    try:
        cases, meta = [], {}
        k = 0
        for n in ([6, 12] if quick else [5, 6, 8, 12, 20]):
            for pos in (0, n - 1, n // 2):
                for fault in (["http401plain", "badjson"] if quick else FAULTS[:7]):
                    lines = []
                    for bi in range(n):
                        key = "many%d-%d" % (k, bi)
                        fake.behaviour[key] = {"fault": fault} if bi == pos else {"reply": "OK", "delay": 0.3}
                        lines += ['# <block name="b%d" check-ai="c [[%s]]">' % (bi, key), "body %d" % bi, "# </block>"]
                    cid = "many%d" % k
                    k += 1
                    cases.append({"id": cid, "files": {"owners.py": "\n".join(lines) + "\n"}, "diff": None, "args": [],
                                  "terminal": True, "env": {"BLOCKWATCH_AI_API_URL": fake.url, "BLOCKWATCH_AI_API_KEY": "k"}})
                    meta[cid] = (n, pos, fault)
        res = vlib.run_cli(cases, timeout=90)
        for c in cases:
            n, pos, fault = meta[c["id"]]
            r = res[c["id"]]
            chk.count(nontrivial=True)
            if r["outcome"] != "error" or r["exit"] == 0:
                chk.violation("%d AI blocks, request %d answered with %s, but the run ended with exit=%s (%s)" % (
                    n, pos, fault, r["exit"], r["outcome"]),
                    {"concrete": c, "observed": {k2: r.get(k2) for k2 in ("outcome", "exit", "report", "error")}})
    finally:
        fake.close()


def run(chk):
    quick = chk.tier == "quick"
    chk.rule = ("TLC explores Run.tla with NAi AI blocks, the endpoint as environment (reply OK / other text / fault) and "
                "the key present or missing, every completion order, and emits every outcome assignment; each is run "
                "against a scripted fake endpoint (fault kinds rotate over refuse / 400 / 401 / 404 / invalid JSON / no "
                "choices / null content / close mid-body); plus fidelity runs (conditions and contents with quotes, "
                "backslashes, newlines, Unicode; pattern extracts; empty blocks) whose recorded requests are compared "
                "byte for byte, and 5..12-block runs with one early fault; non-trivial = diagnostic or failure expected")
    rr.check_invariants(chk, dict(NSync=1, NLua=0, NAi=3, WithEmptyAttr="FALSE") if quick else dict(NSync=1, NLua=1, NAi=3), "C19 key")
    rr.check_invariants(chk, dict(NSync=1, NLua=0, NAi=2, HasKey="FALSE", WithEmptyAttr="FALSE"), "C19 nokey")
    scns = rr.gen_scenarios(chk, dict(NSync=1, NLua=0, NAi=3), "C19")
    scns += rr.gen_scenarios(chk, dict(NSync=1, NLua=0, NAi=2, HasKey="FALSE"), "C19 nokey")
    chk.exhaustive = True
    rr.replay(chk, scns, "c19-", trace_sample=60 if quick else 600,
              fault_of=lambda b: FAULTS[b % len(FAULTS)], post=post, sevmix=True)
    fidelity(chk, quick)
    many_blocks(chk, quick)
    identical_and_transient(chk, quick)


def identical_and_transient(chk, quick):
    """(a) Blocks with the same condition and the same content are still asked one by one, and each reply decides for
    its own block; (b) a fault on the only request of a block fails the run even if the endpoint would answer a second
    attempt: exactly one request is sent, nothing is retried behind the user's back."""
    fake = FakeOpenAI()
    try:
        cases, meta = [], {}
        blk = '# <block name="n" check-ai="same question [[%s]]">\nsame content\n# </block>\n'
        for k, (files, seq, want_req, want_diag) in enumerate([
                (["pkg_a/notice.py", "pkg_b/notice.py"], ["OK", "objection"], 2, 1),
                (["pkg_a/notice.py", "pkg_b/notice.py", "pkg_c/notice.py"], ["objection", "OK", "OK"], 3, 1),
                (["one.py", "one.py", "one.py"], ["OK", "objection 1", "objection 2"], 3, 2)]):
            key = "ident%d" % k
            fake.behaviour[key] = {"seq": [{"reply": r} for r in seq]}
            fl = {}
            for f in files:
                fl[f] = fl.get(f, "") + blk % key
            cid = "ident%d" % k
            cases.append({"id": cid, "files": fl, "diff": None, "args": [], "terminal": True,
                          "env": {"BLOCKWATCH_AI_API_URL": fake.url, "BLOCKWATCH_AI_API_KEY": "k", "TOKIO_WORKER_THREADS": str([1, 4, 16][k % 3])}})
            meta[cid] = ("ident", key, want_req, want_diag)
        for k, fault in enumerate(FAULTS[:7]):
            key = "transient%d" % k
            fake.behaviour[key] = {"seq": [{"fault": fault}, {"reply": "OK"}, {"reply": "OK"}]}
            cid = "transient%d" % k
            cases.append({"id": cid, "files": {"t.py": '# <block name="t" check-ai="c [[%s]]">\nbody\n# </block>\n' % key}, "diff": None,
                          "args": [], "terminal": True, "env": {"BLOCKWATCH_AI_API_URL": fake.url, "BLOCKWATCH_AI_API_KEY": "k"}})
            meta[cid] = ("transient", key, 1, fault)
        res = vlib.run_cli(cases, timeout=90)
        for c in cases:
            kind, key, want_req, extra = meta[c["id"]]
            r = res[c["id"]]
            nreq = len(fake.requests_for(key))
            chk.count(nontrivial=True)
            detail = {"concrete": c, "requests": nreq, "observed": {k2: r.get(k2) for k2 in ("outcome", "exit", "report", "error")}}
            if kind == "ident":
                nd = sum(1 for ds in (r.get("report") or {}).values() for d in ds if d["code"] == "check-ai")
                if r["outcome"] != "ok" or nreq != want_req or nd != extra or r["exit"] != 1:
                    chk.violation("%d identical AI blocks (same condition, same content): %d requests (one per block expected), %d diagnostics "
                                  "(%d replies were objections), exit %s" % (want_req, nreq, nd, extra, r["exit"]), detail)
            else:
                if r["outcome"] != "error" or r["exit"] == 0 or nreq != 1:
                    chk.violation("fault %s on the only request of a block (the endpoint would answer a second attempt): outcome %s, exit %s, "
                                  "%d requests sent" % (extra, r["outcome"], r["exit"], nreq), detail)
    finally:
        fake.close()
