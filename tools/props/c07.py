"""C07 unique: Rules.tla loop vs contract, exhaustive replay."""
import vlib
from props import rules_common as rc

LEVEL = "model_checking"


def run(chk):
    quick = chk.tier == "quick"
    chk.rule = ("TLC enumerates every block of <= MaxLen lines over the MC_C07 alphabet x every configuration; each "
                "behaviour is replayed in-process (and a sample through the CLI); non-trivial = block with >= 2 lines")
    chk.exhaustive = True
    # quick: every block of <= 4 lines x all five key modes; thorough: that, plus <= 5 lines x the three basic modes
    for (ml, wide) in ([(4, "TRUE")] if quick else [(4, "TRUE"), (5, "FALSE")]):
        cfg = rc.set_consts("MC_C07", MaxLen=ml, Wide=wide)
        res = vlib.run_tlc("MC_C07", cfg_text=cfg, timeout=3000, heap="12g")
        chk.add_tlc(res, "MC_C07 MaxLen=%d Wide=%s" % (ml, wide))
        rc.replay(chk, res.cases, layouts=("line", "inline", "inline2", "mltag", "twin", "combo"), cli_sample=150 if quick else 1000,
                  label="w%d" % ml)
        res.cases = None
    # the regex whose group may be empty (small alphabet)
    res2 = vlib.run_tlc("MC_C07", cfg_text=rc.set_consts("MC_C07", MaxLen=4 if quick else 5, Star="TRUE"), timeout=1500, heap="8g")
    chk.add_tlc(res2, "MC_C07 Star (keys that may be empty)")
    rc.replay(chk, res2.cases, layouts=("line", "inline", "twin"), cli_sample=50 if quick else 300, label="s")
    from props import rules_long
    rules_long.run(chk, "unique", n=300 if quick else 3000)
    chk.assumptions += ["regex spellings of the abstract patterns are asserted against Python's re per line class"]
