"""C18 check-lua: one call per block, faithful arguments, errors fail the run.
Run.tla (AtMostOnce, ExactlyOnceOnSuccess, OneDiagnosticPerString, FailClosed over every spawn /
completion / join order) + scenario replay with busy-loop scripts, worker-count and affinity
variation + payload echo + large block sets + TraceRun validation of the recorded runs."""
import json
import os

import vlib
import runtrace
from props import runreplay as rr

LEVEL = "model_checking"

NASTY = ["plain", 'say "hi"', "it's", "ключ = значение", "a\tb", "emoji 😀 x", "line1\nline2\n  indented", "back\\slash",
         "<b>not a tag</b>", "trailing   ", "   leading", "x" * 300, "%s %d {}", "é" * 40]
ERR_VARIANTS = ["err", "syntax", "novalidate", "nonstring", "table", "number", "float", "bool"]
rr.LUA.update({
    "number": "function validate(ctx, content)\n%s  return 3\nend\n",
    "float": "function validate(ctx, content)\n%s  return 1.5\nend\n",
    "bool": "function validate(ctx, content)\n%s  return true\nend\n",
})

ECHO = r'''
local function ser(t)
  local keys = {}
  for k, _ in pairs(t) do keys[#keys + 1] = k end
  table.sort(keys)
  local out = {}
  for _, k in ipairs(keys) do out[#out + 1] = k .. "=" .. t[k] end
  return table.concat(out, "\30")
end
function validate(ctx, content)
  local h = io.open(os.getenv("C18_LOG"), "a")
  if h then h:write(ctx.file .. "\31" .. ctx.line .. "\n") h:close() end
  return "\1" .. ctx.file .. "\2" .. tostring(ctx.line) .. "\2" .. ser(ctx.attrs) .. "\2" .. content .. "\3"
end
'''


def payload_check(chk, quick):
    """Every block's validate() is called exactly once with root-relative file, start-tag line, all
    attributes and the trimmed content (or the pattern extract)."""
    wd = vlib.subdir("c18-payload")
    script = os.path.join(wd, "echo.lua")
    with open(script, "w") as f:
        f.write(ECHO)
    rng = chk.rng
    cases, meta = [], {}
    for ci in range(12 if quick else 80):
        nblocks = rng.choice([1, 2, 3, 5, 8, 17, 40]) if not quick else rng.choice([1, 2, 3, 8, 20])
        files = {}
        exp = []
        for bi in range(nblocks):
            fname = rng.choice(["a.py", "sub/dir/b.py", "c d.py", "ml.rs"])
            body = rng.choice(NASTY)
            mode = rng.choice(["plain", "plain", "group", "whole", "nomatch"])
            extra = {"name": "b%d" % bi, "data-x": rng.choice(["1", "two words", "ü"])}
            # attributes whose value is empty (quoted empty, or a bare name) are attributes too
            if bi % 2 == 0:
                extra["owner"] = ""
            bare = ["flag-%d" % bi] if bi % 3 == 0 else []
            pattern = None
            want = body.strip()
            if mode == "group":
                body = "key = " + body.replace("\n", " ")
                pattern = "key = (?P<value>.+)"
                want = body[len("key = "):]
                want = want.split("\n")[0]
            elif mode == "whole":
                body = "zz " + body.replace("\n", " ")
                pattern = "zz \\S+"
                import re
                m = re.search(r"zz \S+", body)
                want = m.group(0) if m else ""
            elif mode == "nomatch":
                pattern = "WILLNOTMATCH[0-9]+"
                want = ""
            attrs = dict(extra)
            attrs["check-lua"] = script
            if pattern:
                attrs["check-lua-pattern"] = pattern
            lines = files.setdefault(fname, [])
            tagline = len(lines) + 1
            quote = lambda v: ("'%s'" % v) if '"' in v else ('"%s"' % v)
            if fname == "ml.rs":
                # the start tag spans several lines of a block comment: ctx.line is the line of its '<'
                lines.append("/* note")
                tagline = len(lines) + 1
                parts = ["%s=%s" % (k, quote(v)) for k, v in attrs.items()] + bare
                lines.append("   <block " + parts[0])
                lines.extend("     " + p_ for p_ in parts[1:])
                lines.append("   > */")
                for b_ in bare:
                    attrs[b_] = ""
                lines.extend(body.split("\n"))
                lines.append("/* </block> */")
                lines.append("static F%d: i32 = %d;" % (bi, bi))
            else:
                lines.append("# <block %s>" % " ".join(["%s=%s" % (k, quote(v)) for k, v in attrs.items()] + bare))
                for b_ in bare:
                    attrs[b_] = ""
                lines.extend(body.split("\n"))
                lines.append("# </block>")
                lines.append("filler = %d" % bi)
            exp.append((fname, tagline, "\x1e".join("%s=%s" % (k, attrs[k]) for k in sorted(attrs)), want))
        log = os.path.join(wd, "calls-%d.log" % ci)
        cid = "pay%d" % ci
        cases.append({"id": cid, "files": {f: "\n".join(ls) + "\n" for f, ls in files.items()}, "diff": None, "args": [],
                      "terminal": True, "cwd": None,
                      "env": {"BLOCKWATCH_LUA_MODE": "safe", "C18_LOG": log,
                              "TOKIO_WORKER_THREADS": str(rng.choice([1, 2, 16]))}})
        meta[cid] = (exp, log)
    res = vlib.run_cli(cases, timeout=120)
    for c in cases:
        exp, log = meta[c["id"]]
        r = res[c["id"]]
        chk.count(nontrivial=True)
        detail = {"concrete": c, "observed": {k: r.get(k) for k in ("outcome", "exit", "error")}}
        if r["outcome"] != "ok":
            chk.violation("payload run failed: %s" % (r.get("error") or "")[:300], detail)
            continue
        got = []
        for f, ds in (r["report"] or {}).items():
            for d in ds:
                if d["code"] != "check-lua":
                    continue
                # the returned string is carried by the diagnostic (its data, or quoted in its message)
                msg = next((v for v in list((d.get("data") or {}).values()) if isinstance(v, str) and v.startswith("\x01")), None)
                if msg is None and "\x01" in d.get("message", "") and "\x03" in d.get("message", ""):
                    mm = d["message"]
                    msg = mm[mm.index("\x01"):mm.rindex("\x03") + 1]
                if msg is None or not (msg.startswith("\x01") and msg.endswith("\x03")):
                    chk.violation("diagnostic does not carry the returned string verbatim", detail)
                    continue
                p = msg[1:-1].split("\x02")
                got.append((p[0], int(p[1]), p[2], p[3], f, d["range"]["start"]["line"]))
        want = sorted(exp)
        have = sorted((g[0], g[1], g[2], g[3]) for g in got)
        if have != want:
            chk.violation("validate() arguments differ from the blocks as written: expected %d calls, got %d; first difference: %r vs %r" % (
                len(want), len(have), next((w for w in want if w not in have), None), next((h for h in have if h not in want), None)),
                dict(detail, expected=want[:5], got=have[:5]))
        for g in got:
            if g[0] != g[4] or g[1] != g[5]:
                chk.violation("diagnostic attached to %s:%s but ctx said %s:%s" % (g[4], g[5], g[0], g[1]), detail)
        calls = [l for l in open(log).read().split("\n") if l] if os.path.exists(log) else []
        if len(calls) != len(exp) or len(set(calls)) != len(calls):
            chk.violation("call log: %d calls (%d distinct) for %d blocks" % (len(calls), len(set(calls)), len(exp)), detail)
    chk.sample({"payload_case": cases[0]["files"]})


def many_blocks(chk, quick):
    """17..40 scripted blocks; a fast failing script among slow healthy ones must fail the run;
    without failures every block yields exactly one diagnostic."""
    wd = vlib.subdir("c18-many")
    def w(name, text):
        p = os.path.join(wd, name)
        open(p, "w").write(text)
        return p
    boom = w("boom.lua", 'function validate(ctx, content) error("boom") end\n')
    num = w("num.lua", "function validate(ctx, content) return 7 end\n")
    slow_ok = w("slow.lua", rr.LUA["nil"] % rr.busy(3000000))
    slow_str = w("slowstr.lua", rr.LUA["str"] % rr.busy(300000))
    cases, meta = [], {}
    k = 0
    for n in ([20, 40] if quick else [17, 18, 24, 33, 40]):
        for failing in ([], [0], [n - 1], [0, 15], [n // 2]):
            for bad in (boom, num):
                if not failing and bad is num:
                    continue
                for workers in (["1", "16"] if quick else ["1", "2", "4", "16"]):
                    lines = []
                    for bi in range(n):
                        s = bad if bi in failing else (slow_ok if failing else slow_str)
                        lines += ['# <block name="m%d" check-lua="%s">' % (bi, s), "c%d" % bi, "# </block>"]
                    cid = "many%d" % k
                    k += 1
                    cases.append({"id": cid, "files": {"m.py": "\n".join(lines) + "\n"}, "diff": None, "args": [], "terminal": True,
                                  "env": {"TOKIO_WORKER_THREADS": workers}, "taskset": "0" if k % 3 == 0 else None})
                    meta[cid] = (n, failing)
    tdir = vlib.subdir("c18-many-traces")
    res = vlib.run_cli(cases, timeout=180, nthreads=4, trace_dir=tdir)
    traces = {}
    for c in cases:
        n, failing = meta[c["id"]]
        r = res[c["id"]]
        chk.count(nontrivial=True)
        detail = {"concrete": {"blocks": n, "failing": failing, "env": c["env"]}, "observed": {k2: r.get(k2) for k2 in ("outcome", "exit", "error")}}
        if failing:
            if r["outcome"] != "error" or r["exit"] == 0:
                chk.violation("%d scripted blocks, script(s) %s fail, but the run ended with exit=%s (%s)" % (n, failing, r["exit"], r["outcome"]), detail)
        else:
            diags = [d for ds in (r.get("report") or {}).values() for d in ds]
            lines_ = sorted(d["range"]["start"]["line"] for d in diags)
            if r["outcome"] != "ok" or lines_ != [1 + 3 * i for i in range(n)]:
                chk.violation("%d scripted blocks each returning a string: %d diagnostics" % (n, len(diags)), detail)
        # (the trace specification's search grows quickly with the number of concurrently running tasks: the smaller
        # runs are validated, under a time limit; a validation that runs out of time is inconclusive, see evidence)
        if len(traces) < (6 if quick else 40) and n <= 24:
            evs = runtrace.read_events(os.path.join(tdir, "cli-%s.ndjson" % c["id"]))
            t = runtrace.run_trace(evs, r["exit"], "error" if r["outcome"] == "error" else "ok", bool(r.get("report")), False)
            if t:
                traces[c["id"]] = t
    for cid, (ok, diag, states, rc_) in runtrace.validate_many("TraceRun", traces, timeout=150).items():
        chk.traces += 1
        chk.states += states
        chk.transitions += states
        if not ok:
            if rc_ not in (10, 12, 13) and "TRACE" not in (diag or "") and "Invariant" not in (diag or ""):
                raise vlib.ToolError("TraceRun failed on %s rc=%s\n%s" % (cid, rc_, diag))
            chk.violation("TraceRun rejects the recorded run %s: %s" % (cid, (diag or "")[:300]), {"trace_len": len(traces[cid])})


def run(chk):
    quick = chk.tier == "quick"
    chk.rule = ("TLC explores Run.tla with 1 sync validator and NLua scripted blocks for every result class, spawn order, "
                "completion order and join order (incl. the abort of the remaining tasks on the first error) and emits "
                "every outcome assignment; each is realised with Lua scripts whose busy-loops permute the completion "
                "order, under 1/2/16 runtime workers and CPU pinning; error classes rotate over runtime error, syntax "
                "error, missing validate, non-string results; plus payload echo runs (nasty contents, patterns, 1..40 "
                "blocks) and 17..40-block runs with fast failing scripts; non-trivial = scenario with a diagnostic or failure")
    rr.check_invariants(chk, dict(NSync=1, NLua=3, NAi=0) if quick else dict(NSync=1, NLua=4, NAi=1), "C18")
    scns = rr.gen_scenarios(chk, dict(NSync=1, NLua=3, NAi=0), "C18")
    chk.exhaustive = True
    perms = [(0, 200000, 2000000), (2000000, 200000, 0), (200000, 2000000, 0), (0, 0, 0), (2000000, 0, 200000)]

    def delays_of(i, scn):
        p = perms[i % len(perms)]
        return {101: p[0], 102: p[1], 103: p[2]}
    workers = ["1", "2", "16"]
    rr.replay(chk, scns, "c18-", trace_sample=80 if quick else 800,
              lua_err_of=lambda i: ERR_VARIANTS[i % len(ERR_VARIANTS)], delays_of=delays_of,
              extra_env=lambda i: {"TOKIO_WORKER_THREADS": workers[i % 3]}, sevmix=True)
    payload_check(chk, quick)
    many_blocks(chk, quick)
