"""C01 drift detection: DiffTouch.tla (DiffWalk + Touch vs contract over the edit script),
Affects.tla, DiffText acceptance; replay in-process and through real git + the CLI."""
import vlib
from props import rules_common as rc
from props import difftouch as dt

LEVEL = "model_checking"


def run(chk):
    quick = chk.tier == "quick"
    chk.rule = ("TLC enumerates every edit script over {K,D,I,M} of <= MaxOps ops x every placement of 1..MaxBlocks "
                "blocks x comment layout {line, inline, cont} x character-level kind of each tag-line edit; "
                "non-trivial = at least one block whose contract verdict is MUST or MUSTNOT")
    chk.exhaustive = True
    # exhaustive bounds: quick (5 ops, 1 block); thorough (6 ops, 1 block) and (5 ops, 2 blocks) -- (6, 2) is beyond
    # what finishes (measured: (6,1) 1.4 M states / 155 k scripts, (5,2) 2.5 M states / 257 k scripts)
    for (mo, mb) in ([(5, 1)] if quick else [(6, 1), (5, 2)]):
        cfg = rc.set_consts("MC_C01", MaxOps=mo, MaxBlocks=mb)
        res = vlib.run_tlc("MC_C01", cfg_text=cfg, timeout=6000, heap="16g")
        chk.add_tlc(res, "MC_C01 MaxOps=%d MaxBlocks=%d" % (mo, mb))
        dt.replay(chk, res.cases, "C01", cli_sample=200 if quick else 1500)
        res.cases = None
    for sparse in ("FALSE", "TRUE"):
        cfgs = rc.set_consts("MC_C01sim", GenLen=10 if quick else 14, GenSparse=sparse, MaxBlocks=1)   # (two blocks: GenPlace has too many successors for -simulate)
        rs = vlib.run_tlc("MC_C01", cfg_text=cfgs, timeout=3000, simulate=40 if quick else 600, depth=90, seed=chk.seed % 100000,
                          workers=4, heap="8g")
        if not rs.ok:
            raise vlib.ToolError("DiffTouch simulation failed: %s" % (rs.violation or "")[:500])
        chk.notes.setdefault("tlc_runs", []).append({"what": "MC_C01sim -simulate GenSparse=%s" % sparse, "behaviours": len(rs.cases),
                                                     "wall_s": round(rs.wall, 1)})
        dt.replay(chk, rs.cases, "C01", cli_sample=0)
    from props import diff_long
    diff_long.run(chk, n=40 if quick else 400)
    # acceptance of git's own diffs whatever the files contain (DiffText.tla: unidiff's outer loop)
    from props import difftext_replay as dtr
    for consts in (dict(MaxSections=1, MaxHunks=2, MaxBody=2), dict(MaxSections=2, MaxHunks=2, MaxBody=1)):
        r4 = vlib.run_tlc("MC_DiffText", cfg_text=rc.set_consts("MC_DiffText", **consts), timeout=1800, heap="12g")
        chk.add_tlc(r4, "MC_DiffText %s" % consts)
        cs = r4.cases
        chk.rng.shuffle(cs)
        dtr.replay(chk, cs[:250 if quick else len(cs)], "dtx%d-" % consts["MaxSections"])
    # the affects validator itself: every context of blocks x names x touch state x reference shape
    from props import affects_replay as ar
    r2 = vlib.run_tlc("MC_Affects", timeout=3000, heap="16g")
    chk.add_tlc(r2, "MC_Affects (2 blocks, all reference shapes)")
    cs = r2.cases
    chk.rng.shuffle(cs)
    ar.replay(chk, cs[:6000 if quick else len(cs)], "af2-")
    r3 = vlib.run_tlc("MC_Affects", cfg="MC_Affects3", timeout=3000, heap="16g")
    chk.add_tlc(r3, "MC_Affects3 (3 blocks, duplicate names)")
    cs = r3.cases
    chk.rng.shuffle(cs)
    ar.replay(chk, cs[:8000 if quick else len(cs)], "af3-")
