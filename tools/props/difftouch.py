"""Concretiser + replay for DiffTouch.tla behaviours (C01, C02).

A TLC case = edit script + block placement(s) + M kinds + contract verdicts + predictions of the
implementation-shaped walk under every combination of repairs.  This module renders old/new file
texts whose columns match the spec's layout constants (asserted), synthesises the git diff from the
script (cross-checked against real `git diff` on the CLI sample), runs the real code and compares
with the contract.  Failures are attributed to the named deviations only when the as-coded model
predicts exactly what was observed and a repaired model meets the contract (DESIGN.md §5).
"""
import json
import os
import subprocess
import tempfile

import vlib

# spec constants (DiffTouch!Lay, DiffTouch!Rng) -- asserted against the rendered text
LAY = {
    "line":   dict(tc0=6, tc1=46, cend=50, cbeg=0, slines=1, elines=1, len=50, elen=14),
    "inline": dict(tc0=6, tc1=46, cend=53, cbeg=5, slines=1, elines=1, len=58, elen=22),
    "cont":   dict(tc0=6, tc1=46, cend=13, cbeg=0, slines=2, elines=2, len=50, elen=17),
    "mltag":  dict(tc0=6, tc1=25, cend=32, cbeg=0, slines=2, elines=1, len=28, elen=17),
    "mb":     dict(tc0=28, tc1=68, cend=72, cbeg=0, slines=1, elines=1, len=72, elen=14),   # character columns
}
RULES = {"affects": 'affects=":zz" p=a', "count": 'line-count="<0" q'}
POOL = "034569ABCDEFGHIJKLMNOPQRSTUVWXYZ"   # one repeated character per code line; none occurs in tag lines


def tag_text(name, rule, v="("):
    return '<block name="%s" v="%s" %s>' % (name, v, RULES[rule])


EDIT_STYLE = "replace"     # how the OLD spelling of a one-character edit differs: replace | delete | insert


def _was(ch="("):
    """The old text at the position of the edited character: another character (the edit replaced it), that character
    preceded by one that the edit deleted, or nothing (the edit inserted it).  The changed range in the NEW line is
    the same one-character range in all three cases."""
    return {"replace": ")", "delete": "x" + ch, "insert": ""}[EDIT_STYLE]


def s_line(lay, name, rule, kind=None, old=False):
    """Text of the start-tag line; `kind`/`old` select the pre-edit spelling for an M op."""
    v = _was() if (kind == "attr" and old) else "("
    n = _was() + "n" if (kind == "cmtB" and old) else "(n" if kind == "cmtB" else "nn"
    m = _was() + "m" if (kind == "cmtA" and old) else "(m" if kind == "cmtA" else "mm"
    tag = tag_text(name, rule, v)
    if lay == "mb":
        # 24 two-byte characters before the tag: character columns and byte columns differ by 24
        return "// %s %s %s" % ("é" * 24, tag, m)
    if lay == "mltag":
        # first line of a start tag that spans two lines
        return '/* %s <block name="%s" v="%s"' % (n, name, v)
    if lay == "line":
        return "// %s %s %s" % (n, tag, m)
    if lay == "inline":
        post = "7277" if (kind == "post" and old) else "7177"
        return "/* %s %s %s */ %s" % (n, tag, m, post)
    return "/* %s %s %s" % (n, tag, m)


def c_line_mltag(rule, kind=None, old=False):
    """second line of the two-line start tag: attribute w, the rule, '>' and comment text"""
    w = _was() if (kind == "attr2" and old) else "("
    m = _was() + "m" if (kind == "cmtA2" and old) else "(m" if kind == "cmtA2" else "mm"
    return '  w="%s" %s> %s */' % (w, RULES[rule], m)


def e_line(lay, kind=None, old=False, who="m"):
    """End-tag line; `who` (the block's letter) is the second character of the trailing comment word, so that the end
    tags of two blocks of one file are different lines (git's diff is the edit script only if every line is unique)."""
    m = _was() + who if (kind == "endcmt" and old) else "(" + who if kind == "endcmt" else "m" + who
    if lay == "mltag":
        return "/* </block> %s */" % m
    if lay in ("line", "mb"):
        return "// </block> %s" % m
    if lay == "inline":
        pre = "8288" if (kind == "pre" and old) else "8188"
        return "%s /* </block> %s */" % (pre, m)
    return "   </block> %s */" % m


C_LINE = "   more mm */"
CP_LINE = "/* mm"


def selfcheck_layouts():
    L = LAY["mltag"]
    s1, s2 = s_line("mltag", "ba", "affects"), c_line_mltag("affects")
    assert s1.index("<block") == L["tc0"] and len(s1) == L["len"] and s1[26] == "(", (s1, len(s1))
    assert s2.index(">") == L["tc1"] and len(s2) == 32 and s2.index("*/") + 2 == L["cend"] and s2[5] == "(", (s2, len(s2))
    assert c_line_mltag("count").index(">") == L["tc1"] and c_line_mltag("affects", "cmtA2")[27] == "("
    assert len(e_line("mltag")) == L["elen"] and e_line("mltag", "endcmt")[12] == "("
    L = LAY["mb"]
    s1 = s_line("mb", "ba", "affects")
    assert s1.index("<block") == L["tc0"] and s1.index(">") == L["tc1"] and len(s1) == L["len"] and s1[L["tc0"] + 20] == "(", s1
    assert s_line("mb", "ba", "affects", "cmtA")[L["tc1"] + 2] == "(" and len(s1.encode()) - len(s1) == 24
    for lay, L in LAY.items():
        if lay in ("mltag", "mb"):
            continue
        s = s_line(lay, "ba", "affects")
        assert s.index("<block") == L["tc0"], (lay, s)
        assert s.index(">") == L["tc1"], (lay, s.index(">"))
        assert len(s) == L["len"], (lay, len(s))
        assert s[26] == "(", s
        assert s_line(lay, "ba", "count").index(">") == L["tc1"]
        e = e_line(lay)
        assert len(e) == L["elen"], (lay, len(e))
        if lay == "cont":
            assert len(C_LINE) == 13 and C_LINE.index("*/") + 2 == L["cend"]
            assert len(CP_LINE) == 5
        else:
            assert s.index("*/") + 2 == L["cend"] if lay == "inline" else len(s) == L["cend"]
            assert e.index("/*" if lay == "inline" else "//") == L["cbeg"]
        # edit positions
        assert s_line(lay, "ba", "affects", "cmtB")[3] == "(" and s_line(lay, "ba", "affects", "cmtA")[48] == "("
        assert e_line(lay, "endcmt")[L["cbeg"] + 12] == "(", e_line(lay, "endcmt")
        if lay == "inline":
            assert s_line(lay, "ba", "affects", "post")[L["cend"] + 2] == "1"
            assert e_line(lay, "pre")[1] == "1"


selfcheck_layouts()


def code_text(ch):
    return (ch * 6)[:6]


def concretize(case, rule, variant=0):
    """-> dict(old=[lines], new=[lines], entries=[(op, old_text|None, new_text|None)], unreliable=bool)"""
    global EDIT_STYLE
    EDIT_STYLE = ("replace", "delete", "insert")[variant % 3]
    ops, blocks = case["ops"], case["blocks"]
    n = len(ops)
    role = {}
    for bi, b in enumerate(blocks):
        L = LAY[b["lay"]]
        name = "b" + "ab"[bi]
        role[b["ps"]] = ("S", bi, name)
        role[b["pe"]] = ("E", bi, name)
        if L["slines"] == 2:
            role[b["ps"] + 1] = ("C2" if b["lay"] == "mltag" else "C", bi, name)
        if L["elines"] == 2:
            role[b["pe"] - 1] = ("CP", bi, name)
    entries = []
    emptied = False
    pool = (a + b for a in POOL for b in POOL if a != b)       # two-character code lines: 32 x 31 distinct
    for k in range(1, n + 1):
        op = ops[k - 1]
        r = role.get(k)
        if r is None:
            old_t = code_text(next(pool)) if op in ("K", "D", "N", "n") else None
            new_t = old_t if op in ("K", "N", "n") else (code_text(next(pool)) if op == "I" else None)
            if op == "I" and variant % 5 == 2 and not emptied:
                new_t = ""                 # an inserted (or, paired with a removed line, "edited") line that is empty
                emptied = True
            if op == "M":
                raise vlib.ToolError("M on a code line")
        else:
            kind, bi, name = r
            b = blocks[bi]
            if kind == "S":
                mk = b["ks"] if op == "M" else None
                new_t = s_line(b["lay"], name, rule, mk, old=False)
                if op == "M":
                    old_t = "@" * 18 + "s" + name[-1] if mk == "full" else s_line(b["lay"], name, rule, mk, old=True)
                else:
                    old_t = new_t if op in ("K", "N", "n") else None
            elif kind == "E":
                mk = b["ke"] if op == "M" else None
                new_t = e_line(b["lay"], mk, old=False, who=name[-1])
                if op == "M":
                    old_t = "@" * 18 + "e" + name[-1] if mk == "full" else e_line(b["lay"], mk, old=True, who=name[-1])
                else:
                    old_t = new_t if op in ("K", "N", "n") else None
            elif kind == "C2":
                mk = b.get("kc") if op == "M" else None
                new_t = c_line_mltag(rule, mk, old=False)
                old_t = c_line_mltag(rule, mk, old=True) if op == "M" else (new_t if op in ("K", "N", "n") else None)
            else:
                new_t = (C_LINE if kind == "C" else CP_LINE).replace("mm", "m" + name[-1])
                old_t = new_t if op in ("K", "N", "n") else None
            if op == "D":
                raise vlib.ToolError("D on a tag line")
        entries.append((op, old_t, new_t, r[0] if r else "code"))
    # tail: padding and a far-away block that must never be selected
    # (the padding is longer than any script: a deletion recorded at its OLD line number -- deviation DV1 --
    # must not reach the far block, whose only purpose is to be untouched)
    tail = ["zzpad%d" % k for k in range(1, 25)] + ["// " + tag_text("zz", rule).replace('v="("', 'v="z"'), "zzbody", "// </block>"]
    # a terminator-only op (N: the old file ends without a line terminator, n: the new one) is about the file's
    # last line: such scripts get no tail (and no far block)
    term = "N" if "N" in ops else ("n" if "n" in ops else None)
    # scripts that end with deletions: half of them also without a tail, i.e. the old file is longer than the new one
    # and a deletion recorded at its old line number (DV1) lies beyond the end of the file that is parsed
    notail = term is not None or (ops[-1] == "D" and variant % 2 == 0)
    if not notail:
        for t in tail:
            entries.append(("K", t, t, "tail"))
    old = [e[1] for e in entries if e[0] in ("K", "D", "M", "N", "n")]
    new = [e[2] for e in entries if e[0] in ("K", "I", "M", "N", "n")]
    # positional pairs of two different tag lines make the character diff unpredictable for the model
    unreliable = False
    k = 0
    while k < len(entries):
        if entries[k][0] == "K":
            k += 1
            continue
        j = k
        while j < len(entries) and entries[j][0] != "K":
            j += 1
        minus = [(x, e) for x, e in enumerate(entries[k:j], k) if e[0] in ("D", "M", "N", "n")]
        plus = [(x, e) for x, e in enumerate(entries[k:j], k) if e[0] in ("I", "M", "N", "n")]
        for (xa, ea), (xb, eb) in zip(minus, plus):
            if xa != xb and ea[3] != "code" and eb[3] != "code" and not ea[1].startswith("@" * 18):
                unreliable = True
        k = j
    return dict(old=old, new=new, entries=entries, unreliable=unreliable, term=term, notail=notail)


_REPLAY_CALLS = [0]
ALT_NAME = "src dir/caf\u00e9.js"
NONL = "\\ No newline at end of file"


def old_text_of(conc):
    return "\n".join(conc["old"]) + ("" if conc.get("term") == "N" else "\n")


def new_text_of(conc):
    return "\n".join(conc["new"]) + ("" if conc.get("term") == "n" else "\n")


def synth_diff(entries, U, name="f.js", rename_from=None):
    """Unified diff in git's format for the edit script (git-normal form)."""
    # typed lines with old/new numbering
    typed = []
    k = 0
    n = len(entries)
    while k < n:
        if entries[k][0] == "K":
            typed.append((" ", entries[k][1]))
            k += 1
            continue
        j = k
        while j < n and entries[j][0] != "K":
            j += 1
        for e in entries[k:j]:
            if e[0] in ("D", "M", "N", "n"):
                typed.append(("-", e[1]))
                if e[0] == "N":
                    typed.append(("\\", NONL[1:]))
        for e in entries[k:j]:
            if e[0] in ("I", "M", "N", "n"):
                typed.append(("+", e[2]))
                if e[0] == "n":
                    typed.append(("\\", NONL[1:]))
        k = j
    # group into hunks
    idx_changes = [x for x, t in enumerate(typed) if t[0] != " "]
    if not idx_changes:
        return ""
    hunks = []
    start = max(0, idx_changes[0] - U)
    last = idx_changes[0]
    for x in idx_changes[1:]:
        # number of context lines between last change and x
        if x - last - 1 > 2 * U:
            hunks.append((start, min(len(typed), last + U + 1)))
            start = x - U
        last = x
    hunks.append((start, min(len(typed), last + U + 1)))
    if rename_from:
        # the file was renamed and edited: git names the OLD path on the --- side
        out = ["diff --git a/%s b/%s" % (rename_from, name), "similarity index 70%", "rename from %s" % rename_from,
               "rename to %s" % name, "index 1111111..2222222 100644", "--- a/%s" % rename_from, "+++ b/%s" % name]
    else:
        out = ["diff --git a/%s b/%s" % (name, name), "index 1111111..2222222 100644", "--- a/%s" % name, "+++ b/%s" % name]
    for (a, b) in hunks:
        old_before = sum(1 for t in typed[:a] if t[0] in " -")
        new_before = sum(1 for t in typed[:a] if t[0] in " +")
        oc = sum(1 for t in typed[a:b] if t[0] in " -")
        nc = sum(1 for t in typed[a:b] if t[0] in " +")
        os_ = old_before + 1 if oc else old_before
        ns_ = new_before + 1 if nc else new_before
        def rng(s, c):
            return "%d" % s if c == 1 else "%d,%d" % (s, c)
        out.append("@@ -%s +%s @@" % (rng(os_, oc), rng(ns_, nc)))
        for t in typed[a:b]:
            out.append(t[0] + t[1])
    return "\n".join(out) + "\n"


def git_diff(old_text, new_text, U, name="f.js", extra=()):
    d = tempfile.mkdtemp(prefix="gd-", dir=vlib.scratch())
    os.makedirs(os.path.join(d, "a", os.path.dirname(name)), exist_ok=True)
    os.makedirs(os.path.join(d, "b", os.path.dirname(name)), exist_ok=True)
    with open(os.path.join(d, "a", name), "w", newline="") as f:
        f.write(old_text)
    with open(os.path.join(d, "b", name), "w", newline="") as f:
        f.write(new_text)
    p = subprocess.run(["git", "diff", "--no-index", "--no-color", "-U%d" % U] + list(extra) + ["a/" + name, "b/" + name],
                       cwd=d, stdout=subprocess.PIPE, stderr=subprocess.PIPE, text=True,
                       env=dict(os.environ, GIT_CONFIG_NOSYSTEM="1", HOME=d))
    out = p.stdout.replace("a/a/" + name, "a/" + name).replace("b/b/" + name, "b/" + name)
    # (the same for the quoted spelling git uses for names with non-ASCII bytes)
    qn = "".join(chr(b) if 0x20 <= b < 0x80 and b not in (0x22, 0x5c) else "\\%03o" % b for b in name.encode())
    out = out.replace("a/a/" + qn, "a/" + qn).replace("b/b/" + qn, "b/" + qn)
    import shutil
    shutil.rmtree(d, ignore_errors=True)
    return out


def hunk_body(diff):
    return [l for l in diff.split("\n") if l[:1] in ("@", "+", "-", " ", "\\") and not l.startswith(("+++", "---"))]


def violates(tri, flag):
    return (tri == "MUST" and not flag) or (tri == "MUSTNOT" and flag)


def observe_list(res, nblocks):
    """-> per block index (by name ba/bb): (listed, content_modified), and zz listed?"""
    per = {}
    lst = (res.get("list") or {}).get("f.js") or []
    for b in lst:
        per[b["name"]] = (True, b["is_content_modified"])
    obs = [per.get("b" + "ab"[i], (False, False)) for i in range(nblocks)]
    return obs, ("zz" in per)


def attribute(p, obs_listed, obs_content, unreliable):
    """Which named deviations explain this failing block (see module doc)."""
    # (`unreliable` -- a positional pair of two different tag lines, whose character ranges the model
    # only approximates -- does not matter here: attribution requires the as-coded model to predict the
    # observation exactly, and the repairs only move whole-line changes, never ranges.)
    pred = p["pred"]
    if (pred["content"], pred["content"] or pred["tag"]) != (obs_content, obs_listed):
        return ()
    c = p["contract"]

    def meets(f):
        return not violates(c["content"], f["content"]) and not violates(c["select"], f["content"] or f["tag"])
    if meets(p["lin"]):
        return ("F1",)
    if meets(p["u1"]):
        return ("U1",)
    if meets(p["fix1"]):
        return ("DV1",)
    if meets(p["fix2"]):
        return ("DV2",)
    if meets(p["fix12"]):
        return ("DV1", "DV2")   # needs both repairs: listed findings DV1 or DV2 both apply
    if meets(p["idealc"]):
        return ("DV2p",)
    if meets(p["ideal"]):
        return ("U1+DV2p",)    # needs the U1 repair and the ideal pairing: not a single listed finding
    return ()


def replay(chk, cases, what, U_of=lambda ci: (0, 1, 3)[ci % 3], cli_sample=0):
    """what: 'C01' (content flag + affects end-to-end) or 'C02' (selection + same diagnostics as scan)."""
    rule = "affects" if what == "C01" else "count"
    batch, meta = [], {}
    for ci, case in enumerate(cases):
        conc = concretize(case, rule, ci)
        U = U_of(ci)
        diff = synth_diff(conc["entries"], U, rename_from=("old_dir/was_f.js" if ci % 4 == 3 else None))
        new_text = new_text_of(conc)
        files = {"f.js": new_text}
        base = {"files": files, "diff": diff, "terminal": False}
        ids = {}
        for mode, args in (("list", ["list"]), ("run", [])) + ((("glob", ["f.js"]), ("globmiss", ["elsewhere/*.js"])) if what == "C02" else ()):
            cid = "%d-%s" % (ci, mode)
            batch.append(dict(base, id=cid, args=args))
            ids[mode] = cid
        meta[ci] = (case, conc, diff, U, ids)
    results = vlib.run_bwexec(batch, nproc=vlib.NCPU)
    for ci, (case, conc, diff, U, ids) in meta.items():
        judge_case(chk, what, case, conc, diff, U, {m: results[c] for m, c in ids.items()}, "inproc")
    # CLI + real git sample
    if cli_sample:
        pick = sorted(meta)
        chk.rng.shuffle(pick)
        pick = pick[:cli_sample]
        cli_cases = []
        skipped = []
        for ci in pick:
            case, conc, diff, U, ids = meta[ci]
            old_text = old_text_of(conc)
            new_text = new_text_of(conc)
            # every third case under a name git writes as a quoted string in the diff headers (non-ASCII letter, space)
            alt = ALT_NAME if ci % 3 == 0 else "f.js"
            gd = git_diff(old_text, new_text, U, name=alt)
            if hunk_body(gd) != hunk_body(diff):
                # git chose another (equally short) alignment than the edit script: the behaviour is not this script's;
                # rare (repeated or empty lines).  Counted; more than 2 % of the sample is a defect of the synthesiser.
                skipped.append(ci)
                continue
            if alt != "f.js" and '"b/' not in gd:
                raise vlib.ToolError("git did not quote the path %r" % alt)
            for mode, args in (("list", ["list"]), ("run", [])):
                cli_cases.append({"id": "%d-%s" % (ci, mode), "files": {alt: new_text}, "diff": gd, "args": args,
                                  "terminal": False})
        if len(skipped) > max(3, len(pick) // 50):
            case, conc, diff, U, ids = meta[skipped[0]]
            raise vlib.ToolError("diff synthesiser disagrees with git on %d of %d cases, e.g. %d (U=%d):\n%s\n---\n%s" % (
                len(skipped), len(pick), skipped[0], U, git_diff(old_text_of(conc), new_text_of(conc), U), diff))
        chk.notes.setdefault("git_alignment_differs_skipped", []).append(len(skipped))
        pick = [ci for ci in pick if ci not in set(skipped)]
        _REPLAY_CALLS[0] += 1          # one trace directory per call: the hook appends to its file, case ids repeat across calls
        tdir = vlib.subdir("dt-cli-traces-%s-%d" % (what, _REPLAY_CALLS[0]))
        cres = vlib.run_cli(cli_cases, trace_dir=tdir)
        # results under the alternative name are judged like the others: spell the name back
        for cid, r in cres.items():
            for k in ("list", "report"):
                if r.get(k) and ALT_NAME in r[k]:
                    r[k] = json.loads(json.dumps(r[k], ensure_ascii=False).replace(ALT_NAME, "f.js"))
        # impl -> spec: the recorded walk and flags of every listed run against DiffTouch (TraceDiff.tla)
        import runtrace
        trs = {}
        for ci in pick[:(120 if len(pick) <= 400 else 1200)]:
            evs = runtrace.read_events(os.path.join(tdir, "cli-%d-list.ndjson" % ci))
            for tf, tr in runtrace.diff_traces(evs).items():
                trs["%d:%s" % (ci, tf)] = tr
        for tid, (ok, diag, states, rc_) in runtrace.validate_many("TraceDiff", trs).items():
            chk.traces += 1
            chk.states += states
            chk.transitions += states
            if not ok:
                if rc_ not in (10, 12, 13) and "TRACE" not in (diag or "") and "nvariant" not in (diag or ""):
                    raise vlib.ToolError("TraceDiff failed on %s rc=%s\n%s" % (tid, rc_, diag))
                ci = int(tid.split(":")[0])
                chk.violation("TraceDiff rejects the recorded diff walk / touch flags: %s" % (diag or "")[:300],
                              {"abstract": meta[ci][0], "trace": trs[tid]})
        for ci in pick:
            case, conc, diff, U, ids = meta[ci]
            rs = {m: cres["%d-%s" % (ci, m)] for m in ("list", "run")}
            if what == "C02":
                rs["glob"] = None
                rs["globmiss"] = None
            judge_case(chk, what, case, conc, diff, U, rs, "cli+git")
            # CLI and in-process must agree
            for m in ("list", "run"):
                a, b = rs[m], results[ids[m]]
                if (a["outcome"], a["exit"], a["list"], _norm(a["report"])) != (b["outcome"], b["exit"], b["list"], _norm(b["report"])):
                    chk.violation("CLI (real git diff) and in-process (synthesised diff) disagree in %s mode" % m,
                                  {"abstract": case, "concrete": {"files": {"f.js": new_text_of(conc)},
                                                                  "diff": diff, "args": [] if m == "run" else ["list"],
                                                                  "terminal": False},
                                   "cli": {k: a.get(k) for k in ("outcome", "exit", "list", "report", "error")},
                                   "inproc": b})
    if meta:
        ci = sorted(meta)[len(meta) // 2]
        case, conc, diff, U, ids = meta[ci]
        chk.sample({"abstract": {k: case[k] for k in ("ops", "blocks")}, "contract": [p["contract"] for p in case["per"]],
                    "new_file": conc["new"], "diff": diff})


def _norm(report):
    if not report:
        return {}
    return {f: sorted(json.dumps(d, sort_keys=True) for d in ds) for f, ds in report.items()}


def judge_case(chk, what, case, conc, diff, U, rs, via):
    nb = len(case["blocks"])
    conc_case = {"files": {"f.js": new_text_of(conc)}, "diff": diff, "args": ["list"], "terminal": False}
    rl, rr = rs["list"], rs["run"]
    nontrivial = any(p["contract"]["content"] != "GRAY" or p["contract"]["select"] != "GRAY" for p in case["per"])
    chk.count(nontrivial=nontrivial)
    for r in rs.values():
        if r is not None and r["outcome"] in ("panic", "hang", "abort"):
            chk.violation("%s: crash: %s" % (via, r.get("error")), {"abstract": case, "concrete": conc_case})
            return
    if rl["outcome"] != "ok" or rr["outcome"] != "ok":
        chk.violation("%s: a git-style diff was not accepted: %s" % (via, (rl.get("error") or rr.get("error") or "")[:300]),
                      {"abstract": case, "concrete": conc_case})
        return
    obs, zz = observe_list(rl, nb)
    if zz:
        chk.violation("%s: far-away untouched block zz is listed" % via, {"abstract": case, "concrete": conc_case})
    diags = (rr["report"] or {}).get("f.js") or []
    code = "affects" if what == "C01" else "line-count"
    by_line = {}
    for d in diags:
        if d["code"] == code:
            by_line.setdefault(d["range"]["start"]["line"], []).append(d)
    any_gray = False
    expected_fail = False
    for bi, p in enumerate(case["per"]):
        listed, content = obs[bi]
        c = p["contract"]
        sline = _new_no(case["ops"], case["blocks"][bi]["ps"])
        got = len(by_line.get(sline, []))
        fails = []
        if what == "C01":
            if violates(c["content"], content):
                fails.append("block b%s: is_content_modified=%s but contract says %s" % ("ab"[bi], content, c["content"]))
            # affects end-to-end: the referenced block zz is never modified
            if c["content"] == "MUST" and got != 1:
                fails.append("block b%s: content changed but %d affects violations reported" % ("ab"[bi], got))
            if c["content"] == "MUSTNOT" and got != 0:
                fails.append("block b%s: content untouched but affects violation reported" % "ab"[bi])
            if c["content"] == "MUST":
                expected_fail = True
            # internal consistency between list and run (observed flag -> observed affects)
            if content != (got == 1):
                fails.append("block b%s: list says content_modified=%s but run reported %d affects violations" % (
                    "ab"[bi], content, got))
        else:
            if violates(c["select"], listed):
                fails.append("block b%s: listed=%s but contract says %s" % ("ab"[bi], listed, c["select"]))
            if violates(c["content"], content):
                fails.append("block b%s: is_content_modified=%s but contract says %s" % ("ab"[bi], content, c["content"]))
            if c["select"] == "MUST" and got != 1:
                fails.append("block b%s: touched block's violation missed (%d reported)" % ("ab"[bi], got))
            if c["select"] == "MUSTNOT" and got != 0:
                fails.append("block b%s: untouched block's pre-existing violation reported" % "ab"[bi])
            if listed != (got == 1):
                fails.append("block b%s: listed=%s but run reported %d violations for it" % ("ab"[bi], listed, got))
            if c["select"] == "MUST":
                expected_fail = True
        if c["content"] == "GRAY" or c["select"] == "GRAY":
            any_gray = True
            if not conc["unreliable"]:
                pred = p["pred"]
                if (pred["content"], pred["content"] or pred["tag"]) != (content, listed):
                    chk.drift += 1
        if fails:
            why = attribute(p, listed, content, conc["unreliable"])
            tally = chk.notes.setdefault("failing_blocks_by_attribution", {})
            key = "+".join(why) if why else ("unreliable-pairing" if conc["unreliable"] else "UNEXPLAINED")
            tally[key] = tally.get(key, 0) + 1
            if key in ("unreliable-pairing", "UNEXPLAINED"):
                ex = chk.notes.setdefault("unattributed_examples", [])
                if len(ex) < 40:
                    ex.append({"ops": case["ops"], "blocks": case["blocks"], "contract": c, "pred": p["pred"],
                               "obs": [listed, content]})
            chk.violation("%s U=%d: %s" % (via, U, "; ".join(fails)),
                          {"abstract": {k: case[k] for k in ("ops", "blocks")}, "contract": c, "model": p,
                           "concrete": conc_case, "old_file": conc["old"],
                           "observed": {"listed": listed, "content_modified": content, "diagnostics": diags}},
                          explained_by=why)
    if any_gray:
        chk.gray += 1
    # exit status: 1 iff some error diagnostic
    if (rr["exit"] == 1) != bool(diags):
        chk.violation("%s: exit=%s with %d diagnostics" % (via, rr["exit"], len(diags)), {"abstract": case, "concrete": conc_case})
    # far block zz never reported in diff mode without globs
    zline = len(conc["new"]) - 2
    if not conc.get("notail") and by_line.get(zline):
        chk.violation("%s: untouched far block zz reported in diff mode" % via, {"abstract": case, "concrete": conc_case})
    if what == "C02" and rs.get("globmiss") is not None:
        # a path argument that matches nothing must not take the diff's own files out of scope
        rm = rs["globmiss"]
        if (rm["outcome"], rm["exit"], _norm(rm["report"])) != (rr["outcome"], rr["exit"], _norm(rr["report"])):
            chk.violation("%s: with a path argument that does not match the diff's file the touched blocks are no longer validated" % via,
                          {"abstract": case, "concrete": dict(conc_case, args=["elsewhere/*.js"]),
                           "with_arg": {k: rm.get(k) for k in ("outcome", "exit", "report")},
                           "without": {k: rr.get(k) for k in ("outcome", "exit", "report")}})
    if what == "C02" and rs.get("glob") is not None:
        rg = rs["glob"]
        gd = (rg["report"] or {}).get("f.js") or []
        want = len(case["blocks"]) + (0 if conc.get("notail") else 1)
        if rg["outcome"] != "ok" or len([d for d in gd if d["code"] == code]) != want:
            chk.violation("%s: with a path argument every block of the file must be validated: %d of %d reported" % (
                via, len(gd), want), {"abstract": case, "concrete": dict(conc_case, args=["f.js"])})


def _new_no(ops, k):
    return sum(1 for o in ops[:k] if o in ("K", "I", "M", "N", "n"))
