"""Language table and renderer for the comment-level properties (C03, C12, C16, C04).

For each registered file-name suffix: the comment forms of the language, a code line, a line holding
decoy tags outside comments (string literal / markup), an optional header.  `render` turns a
Pairing.tla file (sequence of items) into source text and computes, by construction, the line and
byte column of every start tag and the byte range of every block's content.
"""

C_EXTS = ["c", "cc", "cpp", "h", "cs", "go", "java", "js", "jsx", "kt", "kts", "rs", "swift", "ts", "tsx", "d.ts", "php"]
HASH_EXTS = ["py", "pyi", "rb", "sh", "bash", "toml", "yaml", "yml", "mk", "Makefile", "makefile"]
XML_EXTS = ["html", "htm", "xml", "md", "markdown"]
OTHER = ["css", "sql", "go.mod", "go.sum", "go.work", "phtml"]
ALL_SUFFIXES = C_EXTS + HASH_EXTS + XML_EXTS + OTHER      # 39
assert len(ALL_SUFFIXES) == 39 and len(set(ALL_SUFFIXES)) == 39

NAMELESS = {"Makefile", "makefile", "go.mod", "go.sum", "go.work"}


def file_name(ext, stem="f"):
    return ext if ext in NAMELESS else "%s.%s" % (stem, ext)


def family(ext):
    if ext in C_EXTS or ext in ("phtml",):
        return "c"
    if ext in HASH_EXTS:
        return "hash"
    if ext in XML_EXTS:
        return "xml"
    if ext == "css":
        return "css"
    if ext == "sql":
        return "sql"
    return "gomod"


def forms(ext):
    """Names of the comment forms available for ext."""
    fam = family(ext)
    if fam == "c":
        f = ["line", "block", "mblock", "doc", "trail"]
        if ext in ("rs", "kt", "kts", "swift"):
            f += ["nestblock"]          # block comments nest in these languages: one comment node, inner closer inside
        if ext == "rs":
            f += ["rsdoc", "rsinner"]
        if ext in ("cs", "swift"):
            f += ["rsdoc"]
        if ext in ("php", "phtml"):
            f += ["hash"]
        return f
    if fam == "hash":
        return ["hash"] if ext in ("mk", "Makefile", "makefile") else ["hash", "htrail"]
    if fam == "xml":
        f = ["xml", "mxml"]
        if ext in ("md", "markdown"):
            f += ["mdparen", "mdquote", "divxml"]
        return f
    if fam == "css":
        return ["block", "mblock", "doc"]
    if fam == "sql":
        return ["sqlline", "block", "mblock", "sqltrail"]
    return ["line"]


def header(ext):
    if ext in ("php", "phtml"):
        return ["<?php"]
    if ext == "go":
        return ["package p"]
    if ext == "go.mod":
        return ["module m", "go 1.20"]
    if ext == "go.work":
        return ["go 1.20"]
    return []


def code_line(ext, i):
    fam = family(ext)
    if ext in ("c", "cc", "cpp", "h"):
        return "int v%d = 1;" % i
    if ext == "cs":
        return "class C%d { }" % i
    if ext == "go":
        return "var v%d = 1" % i
    if ext == "java":
        return "class C%d { }" % i
    if ext in ("js", "jsx", "ts", "tsx", "d.ts"):
        return "let v%d = 1;" % i
    if ext in ("kt", "kts"):
        return "val v%d = 1" % i
    if ext == "rs":
        return "static V%d: i32 = 1;" % i
    if ext == "swift":
        return "let v%d = 1" % i
    if ext in ("php", "phtml"):
        return "$v%d = 1;" % i
    if ext == "css":
        return ".c%d { color: red; }" % i
    if ext == "sql":
        return "SELECT %d;" % i
    if ext in ("py", "pyi", "rb", "toml"):
        return "v%d = 1" % i
    if ext in ("sh", "bash"):
        return "v%d=1" % i
    if ext in ("yaml", "yml"):
        return "v%d: 1" % i
    if ext in ("mk", "Makefile", "makefile"):
        return "V%d = 1" % i
    if ext in ("html", "htm"):
        return "<p>text %d</p>" % i
    if ext == "xml":
        return "<a%d>text</a%d>" % (i, i)
    if ext in ("md", "markdown"):
        return "paragraph %d" % i
    if ext in ("go.mod", "go.work", "go.sum"):
        return ""
    raise ValueError(ext)


def decoy_line(ext, i):
    """Tags that are NOT in a comment: string literal, or markup outside comments."""
    t = '<block name=d%d> </block>' % i
    if ext in ("c", "cc", "cpp", "h"):
        return 'const char* s%d = "%s";' % (i, t)
    if ext == "cs":
        return 'class D%d { string s = "%s"; }' % (i, t)
    if ext == "go":
        return 'var s%d = "%s"' % (i, t)
    if ext == "java":
        return 'class D%d { String s = "%s"; }' % (i, t)
    if ext in ("js", "jsx", "ts", "tsx", "d.ts"):
        return 'let s%d = "%s";' % (i, t)
    if ext in ("kt", "kts"):
        return 'val s%d = "%s"' % (i, t)
    if ext == "rs":
        return 'static S%d: &str = "%s";' % (i, t)
    if ext == "swift":
        return 'let s%d = "%s"' % (i, t)
    if ext in ("php", "phtml"):
        return '$s%d = "%s";' % (i, t)
    if ext == "css":
        return '.d%d { content: "%s"; }' % (i, t)
    if ext == "sql":
        return "SELECT '%s';" % t
    if ext in ("py", "pyi", "rb", "toml"):
        return 's%d = "%s"' % (i, t)
    if ext in ("sh", "bash"):
        return 's%d="%s"' % (i, t)
    if ext in ("yaml", "yml"):
        return 's%d: "%s"' % (i, t)
    if ext in ("mk", "Makefile", "makefile"):
        return "S%d = %s" % (i, "block name=d </block")
    if ext in ("html", "htm"):
        return "<p>a &lt;block name=d%d&gt; b</p>" % i
    if ext == "xml":
        return "<b%d>a &lt;block name=d&gt; b</b%d>" % (i, i)
    if ext in ("md", "markdown"):
        return "text with `%s` inside a code span" % t
    if ext in ("go.mod", "go.work", "go.sum"):
        return ""
    raise ValueError(ext)


def wrap(form, lines, ext, i):
    """Comment text for content lines `lines` in `form`.  Returns (list of file lines,
    offset of the comment start in the first line, per content line: (file line index, column offset))"""
    if form in ("line", "rsdoc", "rsinner", "hash", "sqlline"):
        op = {"line": "// ", "rsdoc": "/// ", "rsinner": "//! ", "hash": "# ", "sqlline": "-- "}[form]
        assert len(lines) == 1
        return [op + lines[0]], 0, [(0, len(op))]
    if form in ("trail", "htrail", "sqltrail"):
        op = {"trail": "// ", "htrail": "# ", "sqltrail": "-- "}[form]
        assert len(lines) == 1
        code = code_line(ext, 90 + i) + "  "
        return [code + op + lines[0]], len(code), [(0, len(code) + len(op))]
    if form == "nestblock":
        # the tags sit after the closer of an inner comment (a disabled region holding a commented piece of code)
        if len(lines) == 1:
            return ["/* off /* inner */ " + lines[0] + " */"], 0, [(0, 19)]
        out = ["/* off /* inner */"] + ["   " + l for l in lines] + ["*/"]
        return out, 0, [(k + 1, 3) for k in range(len(lines))]
    if form == "block":
        if len(lines) == 1:
            return ["/* " + lines[0] + " */"], 0, [(0, 3)]
        form = "mblock"
    if form == "doc":
        if len(lines) == 1:
            return ["/** " + lines[0] + " */"], 0, [(0, 4)]
        if i % 2:
            # the closing delimiter shares the last decorated line
            out = ["/*"] + [" * " + l for l in lines]
            out[-1] += " */"
            return out, 0, [(k + 1, 3) for k in range(len(lines))]
        out = ["/**"] + [" * " + l for l in lines] + [" */"]
        return out, 0, [(k + 1, 3) for k in range(len(lines))]
    if form == "mblock":
        out = ["/*"] + ["   " + l for l in lines] + ["*/"]
        return out, 0, [(k + 1, 3) for k in range(len(lines))]
    if form == "xml":
        if len(lines) == 1:
            return ["<!-- " + lines[0] + " -->"], 0, [(0, 5)]
        form = "mxml"
    if form == "mxml":
        out = ["<!--"] + lines + ["-->"]
        return out, 0, [(k + 1, 0) for k in range(len(lines))]
    if form == "divxml":
        # an HTML block that starts with a <div> line; the comment begins on its second (or a later) line
        if len(lines) == 1:
            return ["<div>", "<!-- " + lines[0] + " -->", "</div>"], 0, [(1, 5)], (1, 1)
        return ["<div>", "<p>", "<!--"] + lines + ["-->", "</p>", "</div>"], 0, [(k + 3, 0) for k in range(len(lines))], (2, len(lines) + 3)
    if form == "mdparen":
        assert len(lines) == 1
        return ["[//]: # (" + lines[0] + ")"], 0, [(0, 9)]
    if form == "mdquote":
        assert len(lines) == 1
        return ["[//]: # \"" + lines[0].replace('"', "'") + "\""], 0, [(0, 9)]
    raise ValueError(form)


# languages with interpolation: (line that opens a string literal and an interpolation holding an array, closing line)
TPL = {"js": ("const q = `SELECT ${[", "]}`;"), "jsx": ("const q = `SELECT ${[", "]}`;"), "ts": ("const q = `SELECT ${[", "]}`;"),
       "tsx": ("const q = `SELECT ${[", "]}`;"), "rb": ('q = "SELECT #{[', ']}"'), "kt": ('val q = """SELECT ${listOf(', ')}"""'),
       "kts": ('val q = """SELECT ${listOf(', ')}"""')}

SINGLE_LINE_FORMS = {"line", "rsdoc", "rsinner", "hash", "sqlline", "trail", "htrail", "sqltrail", "mdparen", "mdquote"}


END_SPELLINGS = ["</block>", "</ block >", "< /block>", "</block >"]


def render(items, ext, variant=0, crlf=False, multibyte=False, tag_attrs=None, bare=False, endsp=None, mixed_md=False, container=None,
           mlattr=False, no_eol=False):
    """-> dict(name, text, starts=[{name,line,col,item,pos}], comments={item: (start_byte, end_byte)},
               lines=[...])  Items: [{k: code|str|cmt, tags: [...]}]"""
    fl = forms(ext)
    out_lines = list(header(ext))
    spans = {}          # item idx (1-based) -> (line idx of first line, col offset, line idx of last line, end col)
    starts = []
    tagpos = {}         # (item, pos) -> (line idx, col)
    sidx = 0
    note = "nöte" if multibyte else "note"
    if variant % 6 == 4 and not bare:
        note = "a < b"          # a stray '<' before (and after) the tags in the same comment
    md = ext in ("md", "markdown")
    # (Markdown used to pair link-reference comments and HTML comments on separate stacks -- finding M1,
    # repaired in /repo -- so Markdown files now mix all four comment forms freely.)
    tpl = container == "tpl"       # the whole file inside the interpolation of a template / interpolated string literal
    if tpl:
        container = None
        fl = [f for f in fl if f in ("line", "block", "mblock", "doc", "hash")]
    if container:
        # the extent of a [//]: node inside a container is the grammar's business (gray); so is an HTML block that
        # starts with a tag line inside a container: tree-sitter-md yields an ERROR node instead of html_block when
        # more lines of the container follow it (quirk G3, DESIGN 7.2), so the <div>-wrapped form is used at top level only
        fl = ["xml", "mxml"]
    for n, it in enumerate(items, 1):
        if it["k"] == "code" and tpl:
            out_lines.append("%d," % n)
        elif it["k"] == "str" and tpl:
            out_lines.append('"<block name=d%d> </block>",' % n)
        elif it["k"] == "code":
            out_lines.append(code_line(ext, n))
            if md or ext in ("html", "htm", "xml"):
                out_lines.append("")
        elif it["k"] == "str":
            out_lines.append(decoy_line(ext, n))
            if md:
                out_lines.append("")
        else:
            form = fl[(variant + n) % len(fl)]
            if container and n == len(items) and variant % 2 == 0:
                form = "divxml"      # last element of the container (nothing follows: no G3): comment on line 2+ of its HTML block
            if md and it.get("ck") in ("a", "b") and mixed_md:
                # Markdown file mixing the two comment kinds: a = [//]: # link comments, b = HTML comments
                form = (["mdparen", "mdquote"] if it["ck"] == "a" else ["xml", "mxml"])[(variant + n) % 2]
            tags = it["tags"]
            texts = []
            for p, t in enumerate(tags, 1):
                if t == "S":
                    sidx += 1
                    extra = (tag_attrs or {}).get(sidx, "")
                    if mlattr:
                        # \x00 = line break where the form allows: inside a quoted value, or between two attributes
                        # (not between attributes inside a block quote: the quote marker "> " of the next line ends the tag)
                        extra += ' ml="two\x00lines"' if (sidx % 2 == 0 or container == "bq") else ' ml="two"\x00second="lines"'
                    texts.append(("S", "<block>" if bare else '<block name="n%d"%s>' % (sidx, extra), p, "n%d" % sidx))
                else:
                    es = END_SPELLINGS[endsp % 4] if endsp is not None else ("</block>" if (n + p) % 3 else "</ block >")
                    texts.append(("E", es, p, None))
            if not texts:
                clines = ["%s only" % note]
                where = []
            elif bare:
                # tight: nothing but the tags, glued together, the last one ending the comment text
                line, where = "", []
                for (k, tx, p, nm) in texts:
                    where.append((0, len(line), k, p, nm))
                    line += tx
                clines = [line]
            elif len(texts) == 1 or form in SINGLE_LINE_FORMS or (variant + n) % 2 == 0:
                line = note
                where = []
                for (k, tx, p, nm) in texts:
                    line += " "
                    where.append((0, len(line), k, p, nm))
                    line += tx
                line += " " + note
                clines = [line]
            else:
                clines, where = [], []
                for li, (k, tx, p, nm) in enumerate(texts):
                    pre = "%s%d " % (note, li)
                    where.append((li, len(pre), k, p, nm))
                    clines.append(pre + tx + " x")
            if mlattr and texts and not bare:
                if form in SINGLE_LINE_FORMS:
                    clines = [l.replace("\x00", " ") for l in clines]
                else:
                    # a quoted attribute value that continues on the next line of the same comment
                    ncl, nwh = [], []
                    for li, l in enumerate(clines):
                        pos = 0
                        for part in l.split("\x00"):
                            for (li_, off, k, p, nm) in where:
                                if li_ == li and pos <= off < pos + len(part) + 1:
                                    nwh.append((len(ncl), off - pos, k, p, nm))
                            ncl.append(part)
                            pos += len(part) + 1
                    clines, where = ncl, nwh
            wrapped = wrap(form, clines, ext, n)
            flines, c0, cl = wrapped[:3]
            cfirst, clast = wrapped[3] if len(wrapped) > 3 else (0, len(flines) - 1)
            base = len(out_lines)
            for (li, off, k, p, nm) in where:
                fline, coff = cl[li]
                col_chars = coff + off
                tagpos[(n, p)] = (base + fline, col_chars)
                if k == "S":
                    starts.append({"name": nm, "item": n, "pos": p, "line_idx": base + fline, "col_chars": col_chars})
            out_lines.extend(flines)
            # tree-sitter-rust: a /// or //! doc comment node includes its line terminator (calibrated
            # on the unchanged tree; every other line-comment node ends before the line terminator)
            incl_nl = (ext == "rs" and form in ("rsdoc", "rsinner")) or form in ("mdparen", "mdquote")  # md: link_reference_definition too
            spans[n] = (base + cfirst, c0, base + clast, len(flines[clast]), incl_nl)
            if md:
                out_lines.append("")
    if container:
        # Markdown container: the whole file inside one list item ("- " then two-space continuation)
        # or one block quote ("> " on every line); every position moves right by two columns
        out_lines = [(("- " if k == 0 else "  ") if container == "li" else "> ") + l for k, l in enumerate(out_lines)]
        for s_ in starts:
            s_["col_chars"] += 2
        spans = {n_: (l0, c0 + 2, l1, c1 + 2, inc) for n_, (l0, c0, l1, c1, inc) in spans.items()}
    if tpl:
        # comments inside ${ } / #{ } are comments like any other; every position moves one line down and two columns right
        hdr = len(header(ext))
        opener, closer = TPL[ext]
        out_lines = out_lines[:hdr] + [opener] + ["  " + l for l in out_lines[hdr:]] + [closer]
        for s_ in starts:
            s_["line_idx"] += 1
            s_["col_chars"] += 2
        spans = {n_: (l0 + 1, c0 + 2, l1 + 1, c1 + 2, inc) for n_, (l0, c0, l1, c1, inc) in spans.items()}
    nl = "\r\n" if crlf else "\n"
    if no_eol:
        # the file ends with the last character of its last line: no line terminator, no trailing blank lines
        while out_lines and out_lines[-1] == "":
            out_lines.pop()
    text = nl.join(out_lines) + ("" if no_eol else nl)
    # byte offsets of line starts
    offs, o = [], 0
    for l in out_lines:
        offs.append(o)
        o += len(l.encode()) + len(nl)
    for s in starts:
        l = out_lines[s["line_idx"]]
        s["line"] = s["line_idx"] + 1
        s["col"] = len(l[:s["col_chars"]].encode()) + 1
    cspans = {}
    for n, (l0, c0, l1, c1, incl_nl) in spans.items():
        cspans[n] = (offs[l0] + len(out_lines[l0][:c0].encode()),
                     offs[l1] + len(out_lines[l1][:c1].encode()) + (len(nl) if incl_nl else 0))
    total = len(text.encode())
    cspans = {n: (a, min(b, total)) for n, (a, b) in cspans.items()}
    name = file_name(ext)
    if ext in NAMELESS and variant % 2:
        name = "tools." + ext              # a stem in front of a compound or whole-name suffix: tools.go.mod, tools.Makefile
    return {"name": name, "text": text, "starts": starts, "comments": cspans, "lines": out_lines}
