"""Hook traces of real runs -> ndjson for spec/trace/TraceRun.tla and TraceDetect.tla; parallel TLC."""
import concurrent.futures as cf
import json
import os

import vlib

RUN_EVENTS = {"run_start", "sync_spawned", "join", "merge", "async_spawned", "task_spawn", "tasks_spawned",
              "task_call", "task_ret", "task_join", "report"}
DEFAULTS = {"v": "", "file": "", "idx": 0, "line": 0, "class": "", "sev": 0, "side": "", "result": "", "files": {},
            "n": 0, "sync": 0, "async": 0, "has_key": False, "has_error": False, "status": 0, "outcome": "",
            "reported": False}


def _files(m):
    """{file: [[code,line,col,sev]|diag json]} -> {file: [[code,line,sev]]}"""
    out = {}
    for f, ds in (m or {}).items():
        lst = []
        for d in ds:
            if isinstance(d, list):
                lst.append([d[0], d[1], d[3]])
            else:
                lst.append([d["code"], d["range"]["start"]["line"], d["severity"]])
        out[f] = lst
    return out


def read_events(path):
    evs = []
    if not os.path.exists(path):
        return evs
    with open(path, errors="replace") as f:
        for line in f:
            try:
                evs.append(json.loads(line))
            except Exception:
                pass
    evs.sort(key=lambda e: e.get("seq", 0))
    return evs


def split_cases(events):
    """bwexec traces: {case id: [events]} using the case / case_end markers."""
    out, cur = {}, None
    for e in events:
        if e["ev"] == "case":
            cur = out.setdefault(e["id"], [])
        elif e["ev"] == "case_end":
            cur = None
        elif cur is not None:
            cur.append(e)
    return out


def run_trace(events, exit_status, outcome, reported, has_key):
    """Normalised TraceRun input for one run, or None when the run never reached validators::run."""
    evs = [e for e in events if e["ev"] in RUN_EVENTS]
    if not evs or evs[0]["ev"] != "run_start":
        return None
    out = []
    for e in evs:
        x = dict(DEFAULTS)
        x["ev"] = e["ev"]
        for k in ("v", "idx", "class", "side", "result", "n", "sync", "async", "has_error"):
            if e.get(k) is not None:
                x[k] = e[k]
        if e.get("file") is not None:
            x["file"] = e["file"]
        if e.get("line") is not None:
            x["line"] = e["line"]
        if e.get("sev") is not None:
            x["sev"] = e["sev"]
        if e["ev"] in ("join", "merge", "report"):
            x["files"] = _files(e.get("files"))
        if e.get("result") == "panic":
            x["result"] = "err"
        out.append(x)
    out[0]["has_key"] = bool(has_key)
    fin = dict(DEFAULTS)
    fin.update(ev="exit", status=exit_status, outcome=outcome, reported=bool(reported))
    out.append(fin)
    return out


def validate_many(module, traces, timeout=300, workers=None):
    """traces: {id: [event dicts]}.  Runs one TLC per trace in parallel.
    Returns {id: (accepted, diagnosis, states)}."""
    d = vlib.subdir("traces-" + module)
    res = {}

    def one(item):
        tid, evs = item
        path = os.path.join(d, "%s.ndjson" % str(tid).replace("/", "_"))
        with open(path, "w") as f:
            for e in evs:
                f.write(json.dumps(e) + "\n")
        r = vlib.run_trace_spec(module, path, timeout=timeout, heap="1g")
        diag = None
        if not r.ok and r.returncode == -1 and (r.violation or "").startswith("TLC timeout"):
            # inconclusive, neither accepted nor rejected: the trace is left out (and counted in the evidence);
            # the other traces of the run are still validated.  A timeout is not a verdict about the code.
            vlib.SKIPPED_TRACES.append({"spec": module, "trace": str(tid), "events": len(evs), "timeout_s": timeout})
            return tid, (True, "timeout", 0, 0)
        if not r.ok:
            diag = (json.dumps(r.cases[0]) if r.cases else "") + "\n" + (r.violation or "")[-1500:]
        return tid, (r.ok, diag, r.distinct, r.returncode)

    with cf.ThreadPoolExecutor(max_workers=workers or max(2, vlib.NCPU - 4)) as ex:
        for tid, v in ex.map(one, list(traces.items())):
            res[tid] = v
    return res


DETECT_EVENTS = {"detect_start", "visit_block", "detected", "undetected", "push_back", "break_all", "detect_done"}
DET_ATTR = ["keep-sorted", "keep-unique", "line-pattern", "line-count", "check-ai", "check-lua"]
DDEF = {"stack": [], "enabled": [], "disabled": [], "ctx": [], "fires": [], "v": "", "n": 0}


def fires(attrs, content_mod):
    """Projection of a block (attribute names, content-modified flag) to the detectors that fire on it."""
    out = [a for a in DET_ATTR if a in attrs]
    if "affects" in attrs and content_mod:
        out.append("affects")
    return sorted(out)


def detect_trace(events):
    """Normalised TraceDetect input for one run, or None when detection never started."""
    evs = [e for e in events if e["ev"] in DETECT_EVENTS]
    if not evs or evs[0]["ev"] != "detect_start":
        return None
    ctx = [fires(list(e["attrs"].keys()), e["content_mod"]) for e in events if e["ev"] == "block" and e["kept"]]
    out = []
    for e in evs:
        x = dict(DDEF)
        x["ev"] = e["ev"]
        if e["ev"] == "detect_start":
            x.update(stack=e["stack"], enabled=sorted(e["enabled"]), disabled=sorted(e["disabled"]), ctx=ctx)
        elif e["ev"] == "visit_block":
            x.update(fires=fires(e["attrs"], e["content_mod"]), n=e["stack"])
        elif e["ev"] in ("detected", "undetected"):
            x.update(v=e["v"])
        elif e["ev"] == "push_back":
            x.update(stack=e["stack"])
        elif e["ev"] == "detect_done":
            x.update(n=e["sync"] + e["async"])
        out.append(x)
    return out


def git_unquote(p):
    """The path a C-style quoted diff-header path stands for (git's core.quotePath spelling)."""
    if not (len(p) >= 2 and p[0] == '"' and p[-1] == '"'):
        return p
    out = bytearray()
    b = p[1:-1].encode()
    i = 0
    simple = {ord("a"): 7, ord("b"): 8, ord("t"): 9, ord("n"): 10, ord("v"): 11, ord("f"): 12, ord("r"): 13}
    while i < len(b):
        if b[i] != 0x5c or i + 1 >= len(b):
            out.append(b[i])
            i += 1
            continue
        c = b[i + 1]
        if c in simple:
            out.append(simple[c])
            i += 2
        elif 0x30 <= c <= 0x33:
            j = i + 1
            v = 0
            while j < len(b) and j < i + 4 and 0x30 <= b[j] <= 0x37:
                v = v * 8 + (b[j] - 0x30)
                j += 1
            out.append(v)
            i = j
        else:
            out.append(c)
            i += 2
    return out.decode("utf-8", "replace")


def diff_traces(events):
    """Per file section of a run: normalised TraceDiff input {target_file: [events]}."""
    out = {}
    filt = {}
    for e in events:
        if e["ev"] == "parse_file":
            filt[e["path"]] = e["filter"] == "all"
    sections = {}
    for e in events:
        if e["ev"] in ("dl", "hunk_end", "changes"):
            sections.setdefault(e["file"], []).append(e)
    for tf, evs in sections.items():
        path = git_unquote(tf)
        path = path[2:] if path.startswith("b/") else path
        tr = []
        for e in evs:
            if e["ev"] == "dl":
                tr.append({"ev": "dl", "k": e["k"], "src": e["src"] or 0, "tgt": e["tgt"] or 0, "q": e["q"], "n": e["n"]})
            elif e["ev"] == "hunk_end":
                tr.append({"ev": "hunk_end", "k": "", "src": 0, "tgt": 0, "q": e["q"], "n": e["n"]})
            else:
                tr.append({"ev": "changes", "changes": [{"line": c["line"], "whole": c["whole"], "ranges": c["ranges"]}
                                                          for c in e["changes"]]})
        if not any(t["ev"] == "changes" for t in tr):
            continue
        for e in events:
            if e["ev"] == "block" and e["path"] == path:
                tr.append({"ev": "block", "tag": e["tag"], "content": e["content"], "content_mod": e["content_mod"],
                           "tag_mod": e["tag_mod"], "kept": e["kept"], "filter_all": filt.get(path, False)})
        out[tf] = tr
    return out


def pairing_trace(case_events):
    """Concatenated TracePairing input from {case id: [hook events]} (one segment per parsed file)."""
    out = []
    for cid, evs in case_events.items():
        seg = []
        for e in evs:
            if e["ev"] == "push":
                seg.append({"ev": "push", "line": e["line"], "col": e["col"], "depth": e["depth"], "open": 0, "blocks": 0})
            elif e["ev"] == "pop":
                seg.append({"ev": "pop", "line": e["line"], "col": e["col"], "depth": e["depth"], "open": 0, "blocks": 0})
            elif e["ev"] == "err_end":
                seg.append({"ev": "err_end", "line": 0, "col": 0, "depth": 0, "open": 0, "blocks": 0})
            elif e["ev"] == "pair_done":
                seg.append({"ev": "pair_done", "line": 0, "col": 0, "depth": 0, "open": e["open"], "blocks": e["blocks"]})
                out.append({"ev": "reset", "line": 0, "col": 0, "depth": 0, "open": 0, "blocks": 0, "id": str(cid)})
                out.extend(seg)
                seg = []
        # a parse that failed with err_end returns before pair_done
        if seg:
            out.append({"ev": "reset", "line": 0, "col": 0, "depth": 0, "open": 0, "blocks": 0, "id": str(cid)})
            out.extend(seg)
    for e in out:
        e.setdefault("id", "")
    return out


def validate_pairing(chk, case_events, chunk=400, limit=4000):
    """TracePairing over the recorded push/pop events of many parses (concatenated, chunked)."""
    ids = sorted(case_events, key=str)[:limit]
    traces = {}
    for k in range(0, len(ids), chunk):
        tr = pairing_trace({i: case_events[i] for i in ids[k:k + chunk]})
        if tr:
            traces["pairing-%d" % k] = tr
    for tid, (ok, diag, states, rc_) in validate_many("TracePairing", traces, timeout=600).items():
        chk.traces += sum(1 for e in traces[tid] if e["ev"] == "reset")
        chk.states += states
        chk.transitions += states
        if not ok:
            if rc_ not in (10, 12, 13) and "TRACE" not in (diag or "") and "nvariant" not in (diag or ""):
                raise vlib.ToolError("TracePairing failed on %s rc=%s\n%s" % (tid, rc_, diag))
            chk.violation("TracePairing rejects the recorded tag pairing: %s" % (diag or "")[:300], {"trace_chunk": tid})
    chk.notes.setdefault("trace_runs", []).append({"spec": "TracePairing", "parses": sum(
        1 for t in traces.values() for e in t if e["ev"] == "reset")})


def scope_trace(events):
    """Normalised TraceScope input for one run."""
    out = []
    parsed = []
    for e in events:
        if e["ev"] == "walk_file":
            out.append({"ev": "walk_file", "path": e["path"], "allow": e["allow"], "ignore": e["ignore"], "in_diff": e["in_diff"], "parsed": []})
        elif e["ev"] == "diff_file":
            out.append({"ev": "diff_file", "path": e["path"], "allow": False, "ignore": e["ignore"], "in_diff": True, "parsed": []})
        elif e["ev"] == "parse_file":
            parsed.append(e["path"])
    if not out:
        return None
    out.append({"ev": "scope_done", "path": "", "allow": False, "ignore": False, "in_diff": False, "parsed": sorted(set(parsed))})
    return out


def system_trace(events, res, args, has_diff):
    """Normalised TraceSystem input: stage events of one complete run + the exit event."""
    D = {"ev": "", "n": 0, "has_error": False, "status": 0, "outcome": "", "list": False, "reported": False, "has_diff": False}
    out = []
    last = None
    pending_parse = False
    for e in events:
        ev = e["ev"]
        if ev in ("dl", "hunk_end", "changes"):
            stage = "diff"
        elif ev == "parse_file":
            if not e.get("grammar", True):
                continue        # no grammar: skipped silently, nothing is parsed
            if pending_parse:
                out.append(dict(D, ev="parsed_ok"))
            out.append(dict(D, ev="parse"))
            pending_parse = True
            continue
        elif ev == "scope_done":
            if pending_parse:
                out.append(dict(D, ev="parsed_ok"))
                pending_parse = False
            stage = "scoped"
        elif ev == "detect_start":
            stage = "detect"
        elif ev == "detect_done":
            stage = "detected"
        elif ev == "run_start":
            stage = "run"
        elif ev == "report":
            out.append(dict(D, ev="report", n=sum(len(v) for v in e["files"].values()), has_error=e["has_error"]))
            continue
        else:
            continue
        if stage == "diff" and last == "diff":
            continue
        out.append(dict(D, ev=stage))
        last = stage
    is_list = "list" in (args or [])
    outcome = {"ok": "ok", "error": "error", "reject": "reject"}.get(res["outcome"], res["outcome"])
    out.append(dict(D, ev="exit", status=res["exit"], outcome=outcome, list=is_list, reported=bool(res.get("report")),
                    has_diff=bool(has_diff)))
    # every run starts with `begin`: list mode, diff on stdin, number of files whose parsing was started
    out.insert(0, dict(D, ev="begin", n=sum(1 for e in out if e["ev"] == "parse"), list=is_list, has_diff=bool(has_diff)))
    return out


def validate_detect(traces, chunk=100):
    """TraceDetect over many recorded detector loops: concatenated (every run starts with its detect_start event),
    one TLC process per chunk; the members of a rejected chunk are validated again one by one."""
    ids = sorted(traces, key=str)
    res, groups = {}, {}
    for k in range(0, len(ids), chunk):
        groups["dchunk-%d" % k] = ids[k:k + chunk]
    cat = {g: [e for i in members for e in traces[i]] for g, members in groups.items()}
    for g, (ok, diag, states, rc_) in validate_many("TraceDetect", cat, timeout=600).items():
        members = groups[g]
        if ok:
            for i in members:
                res[i] = (True, None, max(1, states // max(1, len(members))), rc_)
        else:
            res.update(validate_many("TraceDetect", {i: traces[i] for i in members}))
    return res


def validate_system(traces, chunk=150):
    """TraceSystem over many complete runs: the runs of a chunk are concatenated (each starts with its `begin` event)
    and validated by one TLC process; the members of a rejected chunk are validated again one by one so that the
    verdict names the run.  -> {id: (accepted, diagnosis, states, rc)}"""
    ids = sorted(traces, key=str)
    res = {}
    groups = {}
    for k in range(0, len(ids), chunk):
        groups["chunk-%d" % k] = ids[k:k + chunk]
    cat = {g: [e for i in members for e in traces[i]] for g, members in groups.items()}
    for g, (ok, diag, states, rc_) in validate_many("TraceSystem", cat, timeout=600).items():
        members = groups[g]
        if ok:
            for i in members:
                res[i] = (True, None, max(1, states // max(1, len(members))), rc_)
        else:
            res.update(validate_many("TraceSystem", {i: traces[i] for i in members}))
    return res
