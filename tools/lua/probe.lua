-- Probe for C17: walks everything reachable from the global environment, the string metatable and
-- the metatable of every reachable value; exercises every dangerous capability; returns the
-- recorded object graph as one line of text (a diagnostic message).
local function esc(s) return (tostring(s):gsub("[^%w%._%-]", "?")) end

local nodes, order, edges = {}, {}, {}
local function visit(v, path, parent, key)
  local t = type(v)
  if t ~= "table" and t ~= "function" and t ~= "userdata" and t ~= "thread" then return end
  if nodes[v] then
    edges[#edges + 1] = nodes[v].id .. "<" .. (parent or 0) .. ":" .. esc(key or "")
    return
  end
  local id = #order + 1
  nodes[v] = { id = id, path = path, t = t }
  order[id] = v
  edges[#edges + 1] = id .. "<" .. (parent or 0) .. ":" .. esc(key or "")
  if t == "table" then
    local keys = {}
    for k, _ in next, v do if type(k) == "string" or type(k) == "number" then keys[#keys + 1] = k end end
    table.sort(keys, function(a, b) return tostring(a) < tostring(b) end)
    for _, k in ipairs(keys) do
      visit(rawget(v, k), (path == "" and "" or path .. ".") .. esc(k), id, k)
    end
  end
  local mt = getmetatable(v)
  if type(mt) == "table" then visit(mt, path .. "@mt", id, "@mt") end
end

visit(_G, "", 0, "_G")
visit(getmetatable(""), "@stringmt", 0, "@stringmt")
-- values a script obtains by CALLING what it holds: a chunk compiled by `load` without an explicit environment
-- runs in the interpreter's global table, which need not be the table the script itself runs in; a coroutine
-- body and a chunk compiled with an explicit environment see what the script gives them (nothing new)
do
  local ok, env = pcall(function() return load("return _ENV")() end)
  if ok and type(env) == "table" then visit(env, "@loadenv", 0, "@loadenv") end
  local ok2, g2 = pcall(function() return load("return _G")() end)
  if ok2 and type(g2) == "table" then visit(g2, "@loadenv", 0, "@loadenv") end
end

-- exercise: does the capability actually work?
local works = {}
local function try(name, f)
  local ok, res = pcall(f)
  works[#works + 1] = name .. "=" .. ((ok and res) and "1" or "0")
end
local probe_file = PROBE_FILE
try("dofile", function() return dofile ~= nil and (pcall(dofile, probe_file)) end)
try("loadfile", function() return loadfile ~= nil and loadfile(probe_file) ~= nil end)
try("require", function() return require ~= nil and (pcall(require, "string")) end)
try("io.open", function() return io ~= nil and io.open(probe_file, "r") ~= nil end)
try("io.lines", function() return io ~= nil and (pcall(io.lines, probe_file)) end)
try("os.getenv", function() return os ~= nil and os.getenv("PATH") ~= nil end)
try("os.execute", function() return os ~= nil and os.execute ~= nil and os.execute("true") == true end)
try("os.remove", function() return os ~= nil and os.remove ~= nil end)
try("io.popen", function() return io ~= nil and io.popen ~= nil and io.popen("true") ~= nil end)
try("package.loadlib", function()
  if package == nil or package.loadlib == nil then return false end
  local f, err, where = package.loadlib("libc.so.6", "*")
  if f then return true end
  -- a working loader reports a dynamic-loader error ("open"/"init"); the safe-mode stub raises instead
  return where == "open" or where == "init"
end)
try("package.cpath_searcher", function() return package ~= nil and package.searchers ~= nil and #package.searchers >= 4 end)
try("debug.getregistry", function() return debug ~= nil and debug.getregistry ~= nil and debug.getregistry() ~= nil end)
try("debug.getinfo", function() return debug ~= nil and debug.getinfo ~= nil end)
try("load", function() return load ~= nil and load("return 1")() == 1 end)
try("load-loadfile", function() return load("return loadfile ~= nil and loadfile(...) ~= nil")(probe_file) end)
try("load-dofile", function() return load("return dofile ~= nil and (pcall(dofile, ...))")(probe_file) end)
try("load-io", function() return load("return io ~= nil and io.open ~= nil")() end)
try("load-os", function() return load("return os ~= nil and os.getenv ~= nil")() end)
try("load-require", function() return load("return require ~= nil")() end)
try("string.dump", function() return string.dump ~= nil and #string.dump(function() end) > 0 end)
try("bytecode", function() return load ~= nil and string.dump ~= nil and load(string.dump(function() return 7 end), "b", "b") ~= nil end)
try("collectgarbage", function() return collectgarbage ~= nil and collectgarbage("count") > 0 end)
try("coroutine-io", function()
  local co = coroutine.wrap(function() return io ~= nil and io.open ~= nil end)
  return co()
end)
try("gmt-string-index-io", function() local m = getmetatable("") return m ~= nil and m.__index ~= nil and m.__index.io ~= nil end)

function validate(ctx, content)
  local out = { "PROBE" }
  local ns = {}
  for id = 1, #order do
    local n = nodes[order[id]]
    ns[#ns + 1] = id .. "=" .. n.t:sub(1, 1) .. ":" .. n.path
  end
  out[#out + 1] = "N " .. table.concat(ns, " ")
  out[#out + 1] = "E " .. table.concat(edges, " ")
  out[#out + 1] = "W " .. table.concat(works, " ")
  return table.concat(out, "|")
end
