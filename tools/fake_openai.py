"""Scripted fake chat-completions endpoint (stdlib only, raw sockets, threaded).

Behaviour is looked up per request by a key embedded in the CONDITION text (`[[key]]`), so one
server serves many concurrent scenarios.  Every request is recorded (path, authorization header,
model, messages) for the conformance checks.  Faults are the ones C19 lists:
  refuse  -- handled by the driver (URL pointing at a closed port), not here
  http400json / http401plain / http404plain -- client-error status
  badjson   -- 200 with a body that is not JSON
  nochoices -- 200 with "choices": []
  nullcontent -- 200 with message.content = null
  closemid  -- headers + half of the body, then the connection is closed
"""
import json
import re
import socket
import threading


class FakeOpenAI:
    def __init__(self):
        self.sock = socket.socket(socket.AF_INET, socket.SOCK_STREAM)
        self.sock.setsockopt(socket.SOL_SOCKET, socket.SO_REUSEADDR, 1)
        self.sock.bind(("127.0.0.1", 0))
        self.sock.listen(256)
        self.port = self.sock.getsockname()[1]
        self.behaviour = {}     # key -> {"reply": text} | {"fault": name} | {"seq": [behaviour, ...]} ; optional "delay"
        self.requests = []      # recorded requests
        self.lock = threading.Lock()
        self.stop = False
        self.thread = threading.Thread(target=self._accept, daemon=True)
        self.thread.start()

    @property
    def url(self):
        return "http://127.0.0.1:%d/v1" % self.port

    def close(self):
        self.stop = True
        try:
            self.sock.close()
        except Exception:
            pass

    def requests_for(self, key):
        with self.lock:
            return [r for r in self.requests if r.get("key") == key]

    def _accept(self):
        while not self.stop:
            try:
                conn, _ = self.sock.accept()
            except OSError:
                return
            threading.Thread(target=self._serve, args=(conn,), daemon=True).start()

    def _read_request(self, conn):
        buf = b""
        while b"\r\n\r\n" not in buf:
            chunk = conn.recv(65536)
            if not chunk:
                return None
            buf += chunk
        head, rest = buf.split(b"\r\n\r\n", 1)
        lines = head.decode("latin-1").split("\r\n")
        method, path, _ = lines[0].split(" ", 2)
        headers = {}
        for l in lines[1:]:
            if ":" in l:
                k, v = l.split(":", 1)
                headers[k.strip().lower()] = v.strip()
        n = int(headers.get("content-length", "0"))
        while len(rest) < n:
            chunk = conn.recv(65536)
            if not chunk:
                break
            rest += chunk
        return method, path, headers, rest[:n]

    def _serve(self, conn):
        try:
            conn.settimeout(10)
            while True:
                req = self._read_request(conn)
                if req is None:
                    return
                method, path, headers, body = req
                rec = {"method": method, "path": path, "authorization": headers.get("authorization"),
                       "raw": body.decode("utf-8", "replace")}
                key = None
                try:
                    payload = json.loads(body.decode("utf-8"))
                    rec["model"] = payload.get("model")
                    rec["messages"] = payload.get("messages")
                    for m in payload.get("messages", []):
                        if m.get("role") == "user":
                            rec["user"] = m.get("content")
                            mm = re.search(r"\[\[([A-Za-z0-9_.-]+)\]\]", m.get("content") or "")
                            if mm:
                                key = mm.group(1)
                except Exception as e:  # noqa
                    rec["parse_error"] = str(e)
                rec["key"] = key
                with self.lock:
                    n_prev = sum(1 for r in self.requests if r.get("key") == key)
                    self.requests.append(rec)
                    beh = dict(self.behaviour.get(key) or {"reply": "OK"})
                    if "seq" in beh:
                        # scripted by arrival order: the n-th request carrying this key gets the n-th behaviour
                        beh = dict(beh["seq"][min(n_prev, len(beh["seq"]) - 1)])
                if beh.get("delay"):
                    import time
                    time.sleep(beh["delay"])
                fault = beh.get("fault")
                ok_body = json.dumps({
                    "id": "chatcmpl-fake", "object": "chat.completion", "created": 1700000000,
                    "model": rec.get("model") or "m",
                    "choices": [{"index": 0, "message": {"role": "assistant", "content": beh.get("reply", "OK")},
                                 "finish_reason": "stop"}]}).encode()
                if fault is None:
                    self._send(conn, 200, "application/json", ok_body)
                elif fault == "http400json":
                    self._send(conn, 400, "application/json", json.dumps(
                        {"error": {"message": "bad request", "type": "invalid_request_error", "param": None,
                                   "code": None}}).encode())
                elif fault == "http401plain":
                    self._send(conn, 401, "text/plain", b"unauthorized")
                elif fault == "http404plain":
                    self._send(conn, 404, "text/plain", b"not found")
                elif fault == "badjson":
                    self._send(conn, 200, "application/json", b"{this is not json")
                elif fault == "nochoices":
                    self._send(conn, 200, "application/json", json.dumps(
                        {"id": "x", "object": "chat.completion", "created": 1, "model": "m", "choices": []}).encode())
                elif fault == "nullcontent":
                    self._send(conn, 200, "application/json", json.dumps(
                        {"id": "x", "object": "chat.completion", "created": 1, "model": "m",
                         "choices": [{"index": 0, "message": {"role": "assistant", "content": None},
                                      "finish_reason": "stop"}]}).encode())
                elif fault == "closemid":
                    head = ("HTTP/1.1 200 OK\r\ncontent-type: application/json\r\ncontent-length: %d\r\n\r\n" % len(ok_body)).encode()
                    conn.sendall(head + ok_body[:len(ok_body) // 2])
                    conn.shutdown(socket.SHUT_RDWR)
                    return
                else:
                    self._send(conn, 500, "text/plain", b"unknown fault")
                    return
        except Exception:
            pass
        finally:
            try:
                conn.close()
            except Exception:
                pass

    @staticmethod
    def _send(conn, status, ctype, body):
        reason = {200: "OK", 400: "Bad Request", 401: "Unauthorized", 404: "Not Found"}.get(status, "X")
        head = "HTTP/1.1 %d %s\r\ncontent-type: %s\r\ncontent-length: %d\r\nconnection: keep-alive\r\n\r\n" % (
            status, reason, ctype, len(body))
        conn.sendall(head.encode() + body)


def closed_port_url():
    s = socket.socket()
    s.bind(("127.0.0.1", 0))
    port = s.getsockname()[1]
    s.close()
    return "http://127.0.0.1:%d/v1" % port
