#!/bin/bash
# every property's thorough tier, one after the other; summary in work/thorough.log
cd /verif
out=/verif/work/thorough.log; : > $out
for p in ${@:-C10 C16 C17 C12 C03 C05 C13 C09 C08 C06 C07 C14 C15 C19 C20 C18 C11 C04 C02 C01}; do
  s=$(date +%s)
  python3 tools/check.py $p --tier thorough > work/thorough-$p.log 2>&1; rc=$?
  e=$(date +%s)
  echo "$p rc=$rc $((e-s))s $(grep -v '^KNOWN' work/thorough-$p.log | tail -1 | cut -c1-200)" >> $out
done
echo FINISHED >> $out
