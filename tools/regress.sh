#!/bin/bash
# full regression: every property's quick check on the unchanged tree, then every seeded change
cd /verif
out=/verif/work/regress.log; : > $out
for p in C01 C02 C03 C04 C05 C06 C07 C08 C09 C10 C11 C12 C13 C14 C15 C16 C17 C18 C19 C20; do
  python3 tools/check.py $p --tier quick > work/head-$p.log 2>&1; rc=$?
  echo "HEAD $p rc=$rc $(grep -v '^KNOWN' work/head-$p.log | tail -1 | cut -c1-160)" >> $out
done
for d in seeded/*/; do s=$(basename $d); tools/seedtest.sh $s >> $out 2>&1; done
echo FINISHED >> $out
