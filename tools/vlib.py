"""Shared machinery for the blockwatch TLA+ conformance checks.

Everything here is deliberately free of expectations about blockwatch: expectations come from TLC
output (contract operators of the specs under /verif/spec).  Exit codes: 0 held, 1 VIOLATION,
2 tool error.
"""
import atexit
import concurrent.futures as cf
import json
import os
import random
import re
import shutil
import subprocess
import sys
import tempfile
import time

ROOT = os.path.dirname(os.path.dirname(os.path.abspath(__file__)))
REPO = os.environ.get("VERIF_REPO", "/repo")
SPEC = os.path.join(ROOT, "spec")
HARNESS = os.path.join(ROOT, "harness")
TARGET = os.path.join(HARNESS, "target")
BWEXEC = os.path.join(TARGET, "release", "bwexec")
CLI = os.path.join(TARGET, "release", "blockwatch")
EVIDENCE = os.path.join(ROOT, "evidence")
REPLAYS = os.path.join(ROOT, "work", "replays")
NCPU = os.cpu_count() or 4
TLC_JAR = "/opt/veriftools/tla/tla2tools.jar:/opt/veriftools/tla/CommunityModules-deps.jar"


class ToolError(Exception):
    pass


def die_tool(msg):
    sys.stderr.write("TOOL-ERROR: %s\n" % msg)
    sys.stdout.flush()
    sys.exit(2)


_scratch = None


def scratch():
    """A scratch directory outside /repo and /verif, removed at exit."""
    global _scratch
    if _scratch is None:
        base = os.environ.get("VERIF_SCRATCH") or tempfile.gettempdir()
        _scratch = tempfile.mkdtemp(prefix="bwverif-", dir=base)
        atexit.register(lambda: shutil.rmtree(_scratch, ignore_errors=True))
    return _scratch


def subdir(name):
    d = os.path.join(scratch(), name)
    os.makedirs(d, exist_ok=True)
    return d


# ------------------------------------------------------------------------------------------------
# build
# ------------------------------------------------------------------------------------------------
def build(quiet=True):
    """(Re)build bwexec and the hooked CLI from /repo's working tree. No-op when unchanged."""
    env = dict(os.environ, CARGO_NET_OFFLINE="true")
    lock = os.path.join(HARNESS, "Cargo.lock")
    if not os.path.exists(lock):
        shutil.copy(os.path.join(REPO, "Cargo.lock"), lock)
    t0 = time.time()
    for cmd in (
        ["cargo", "build", "--release", "--offline"],
        ["cargo", "build", "--release", "--offline", "--manifest-path", os.path.join(REPO, "Cargo.toml"),
         "--features", "verif", "--target-dir", TARGET, "--bin", "blockwatch"],
    ):
        p = subprocess.run(cmd, cwd=HARNESS, env=env, stdout=subprocess.PIPE, stderr=subprocess.STDOUT, text=True)
        if p.returncode != 0:
            sys.stderr.write(p.stdout[-4000:])
            die_tool("cargo build failed: %s" % " ".join(cmd))
    if not quiet:
        print("build ok in %.1fs" % (time.time() - t0))
    return time.time() - t0


# ------------------------------------------------------------------------------------------------
# TLC
# ------------------------------------------------------------------------------------------------
class TlcResult:
    def __init__(self):
        self.generated = 0
        self.distinct = 0
        self.cases = []
        self.ok = False
        self.violation = None  # text of an invariant violation / error, if any
        self.out_tail = ""
        self.wall = 0.0
        self.coverage = {}
        self.returncode = None


_RE_STATES = re.compile(r"^(\d+) states generated, (\d+) distinct states found")
_RE_COV = re.compile(r"^<(\w+) line \d+, col \d+ to line \d+, col \d+ of module (\w+)>: (\d+):(\d+)")


def _parse_case_line(line):
    # <<"CASE", "...tla-escaped json...">>
    i = line.find(', "')
    inner = line[i + 2:line.rstrip().rfind(">>")]
    return json.loads(json.loads(inner))


TLC_INTERNAL_RETRIES = []      # (module, message) of TLC-internal exceptions that went away on a re-run (reported in the evidence)


def run_tlc(module, cfg=None, workers=None, timeout=900, simulate=None, depth=None, seed=None,
            env=None, deadlock=False, coverage=False, heap="8g", extra=(), case_tag="CASE",
            keep_cases=True, on_case=None, cfg_text=None):
    """run_tlc with one safeguard: a multi-worker TLC run occasionally dies of an exception inside TLC itself (seen once
    under heavy load: `java.lang.RuntimeException: Field name b occurs multiple times in record` on a model that passes
    otherwise).  Such a failure says nothing about the specification or the code: the run is repeated (the last time
    with one worker); a failure that persists is reported as before."""
    kw = dict(cfg=cfg, workers=workers, timeout=timeout, simulate=simulate, depth=depth, seed=seed, env=env, deadlock=deadlock,
              coverage=coverage, heap=heap, extra=extra, case_tag=case_tag, keep_cases=keep_cases, on_case=on_case, cfg_text=cfg_text)
    res = _run_tlc_once(module, **kw)
    attempts = 0
    while (not res.ok and on_case is None and attempts < 2 and "TLC threw an unexpected exception" in (res.violation or "")
           and "is violated" not in (res.violation or "")):
        attempts += 1
        TLC_INTERNAL_RETRIES.append({"module": module, "attempt": attempts, "message": (res.violation or "")[:300]})
        if attempts == 2:
            kw["workers"] = 1
        res = _run_tlc_once(module, **kw)
    return res


def _run_tlc_once(module, cfg=None, workers=None, timeout=900, simulate=None, depth=None, seed=None,
                  env=None, deadlock=False, coverage=False, heap="8g", extra=(), case_tag="CASE",
                  keep_cases=True, on_case=None, cfg_text=None):
    """Runs TLC on spec/<module>.tla with spec/mc/<cfg>.cfg.  Returns a TlcResult.

    Lines printed by the spec as PrintT(<<"CASE", ToJson(x)>>) are parsed into result.cases.
    """
    res = TlcResult()
    mod_path = None
    for d in (os.path.join(SPEC, "mc"), os.path.join(SPEC, "trace"), SPEC):
        if os.path.exists(os.path.join(d, module + ".tla")):
            mod_path = os.path.join(d, module + ".tla")
            break
    if mod_path is None:
        die_tool("no such TLA+ module: " + module)
    cfg_path = os.path.join(os.path.dirname(mod_path), (cfg or module) + ".cfg")
    if not os.path.exists(cfg_path):
        cfg_path = os.path.join(SPEC, "mc", (cfg or module) + ".cfg")
    meta = tempfile.mkdtemp(prefix="tlc-", dir=scratch())
    if cfg_text is not None:
        cfg_path = os.path.join(meta, "override.cfg")
        with open(cfg_path, "w") as f:
            f.write(cfg_text)
    workers = workers or min(12, NCPU)
    libpath = os.pathsep.join([SPEC, os.path.join(SPEC, "mc"), os.path.join(SPEC, "trace")])
    # (java.io.tmpdir: TLC unpacks the standard modules it parses into a fresh directory per run; keep that inside the
    # run's own scratch directory, which is removed afterwards, instead of littering /tmp)
    cmd = ["java", "-XX:+UseParallelGC", "-Xmx" + heap, "-Xss1g", "-Djava.io.tmpdir=" + meta, "-DTLA-Library=" + libpath]
    cmd += ["-cp", TLC_JAR, "tlc2.TLC"]
    cmd += ["-workers", str(workers), "-metadir", meta, "-cleanup", "-noGenerateSpecTE"]
    if not deadlock:
        cmd += ["-deadlock"]
    if coverage:
        cmd += ["-coverage", "1"]
    if simulate:
        cmd += ["-simulate", "num=%d" % simulate]
        if depth:
            cmd += ["-depth", str(depth)]
    if seed is not None:
        cmd += ["-seed", str(seed)]
    cmd += list(extra)
    cmd += ["-config", cfg_path, mod_path]
    e = dict(os.environ)
    e.pop("JAVA_TOOL_OPTIONS", None)
    if env:
        e.update(env)
    t0 = time.time()
    outf = os.path.join(meta, "tlc.out")
    with open(outf, "w") as fo:
        try:
            p = subprocess.run(cmd, cwd=os.path.dirname(mod_path), env=e, stdout=fo, stderr=subprocess.STDOUT,
                               timeout=timeout)
            res.returncode = p.returncode
        except subprocess.TimeoutExpired:
            res.wall = time.time() - t0
            res.violation = "TLC timeout after %ss" % timeout
            res.returncode = -1
            return res
    res.wall = time.time() - t0
    tail = []
    tag = '<<"%s", ' % case_tag
    errors = []
    in_err = False
    with open(outf, errors="replace") as fi:
        for line in fi:
            if line.startswith(tag):
                try:
                    c = _parse_case_line(line)
                except Exception as ex:  # noqa
                    errors.append("unparsable case line: " + line[:200])
                    continue
                if on_case is not None:
                    on_case(c)
                if keep_cases:
                    res.cases.append(c)
                continue
            m = _RE_STATES.match(line)
            if m:
                res.generated, res.distinct = int(m.group(1)), int(m.group(2))
            m = _RE_COV.match(line)
            if m:
                res.coverage[m.group(1)] = int(m.group(3))
            if line.startswith("Error:") or "is violated" in line or line.startswith("Invariant "):
                in_err = True
            if in_err and len(errors) < 60:
                errors.append(line.rstrip())
            tail.append(line.rstrip())
            if len(tail) > 60:
                tail.pop(0)
    res.out_tail = "\n".join(tail)
    shutil.rmtree(meta, ignore_errors=True)
    if res.returncode == 0 and not errors:
        res.ok = True
    else:
        res.violation = "\n".join(errors) if errors else res.out_tail
    return res


def sany(module_path):
    p = subprocess.run(["java", "-cp", TLC_JAR, "-DTLA-Library=" + os.pathsep.join(
        [SPEC, os.path.join(SPEC, "mc"), os.path.join(SPEC, "trace")]), "tla2sany.SANY", module_path],
        cwd=os.path.dirname(module_path), stdout=subprocess.PIPE, stderr=subprocess.STDOUT, text=True)
    ok = p.returncode == 0 and "Semantic errors" not in p.stdout and "***Parse Error***" not in p.stdout \
        and "Fatal errors" not in p.stdout and "Could not" not in p.stdout
    return ok, p.stdout


# ------------------------------------------------------------------------------------------------
# trace validation
# ------------------------------------------------------------------------------------------------
SKIPPED_TRACES = []      # trace validations that ran into their time limit (inconclusive; reported in the evidence)


def run_trace_spec(module, trace_path, timeout=600, cfg=None, heap="4g"):
    """TLC over spec/trace/<module>.tla with TRACE=<trace_path>; acceptance is decided by the
    spec's POSTCONDITION (TLC exit status 0).  Lines PrintT(<<"TRACE", json>>) come back as cases."""
    res = TlcResult()
    mod_path = os.path.join(SPEC, "trace", module + ".tla")
    cfg_path = os.path.join(SPEC, "trace", (cfg or module) + ".cfg")
    meta = tempfile.mkdtemp(prefix="tlctrace-", dir=scratch())
    libpath = os.pathsep.join([SPEC, os.path.join(SPEC, "mc"), os.path.join(SPEC, "trace")])
    cmd = ["java", "-XX:+UseParallelGC", "-Xmx" + heap, "-Xss1g", "-Djava.io.tmpdir=" + meta,
           "-Dtlc2.tool.queue.IStateQueue=StateDeque", "-DTLA-Library=" + libpath,
           "-cp", TLC_JAR, "tlc2.TLC", "-workers", "1", "-metadir", meta, "-cleanup",
           "-noGenerateSpecTE", "-deadlock", "-config", cfg_path, mod_path]
    e = dict(os.environ, TRACE=trace_path)
    e.pop("JAVA_TOOL_OPTIONS", None)
    t0 = time.time()
    try:
        p = subprocess.run(cmd, cwd=os.path.dirname(mod_path), env=e, stdout=subprocess.PIPE,
                           stderr=subprocess.STDOUT, text=True, timeout=timeout, errors="replace")
    except subprocess.TimeoutExpired:
        res.violation = "TLC timeout after %ss" % timeout
        res.returncode = -1
        return res
    res.wall = time.time() - t0
    res.returncode = p.returncode
    for line in p.stdout.splitlines():
        if line.startswith('<<"TRACE", '):
            try:
                res.cases.append(_parse_case_line(line))
            except Exception:
                pass
        m = _RE_STATES.match(line)
        if m:
            res.generated, res.distinct = int(m.group(1)), int(m.group(2))
    res.out_tail = "\n".join(p.stdout.splitlines()[-40:])
    res.ok = p.returncode == 0
    if not res.ok:
        res.violation = res.out_tail
    shutil.rmtree(meta, ignore_errors=True)
    return res


# ------------------------------------------------------------------------------------------------
# executors
# ------------------------------------------------------------------------------------------------
def run_bwexec(cases, nproc=None, trace_dir=None, timeout_per_shard=600, env=None):
    """Runs cases (list of dicts with unique 'id') in-process through bwexec, sharded over processes.

    Returns dict id -> result.  A hang is reported as outcome 'hang' for the case that was running.
    If trace_dir is given, each shard writes hook events to trace_dir/shard<k>.ndjson.
    """
    if not cases:
        return {}
    nproc = max(1, min(nproc or NCPU, len(cases) // 50 + 1))
    d = tempfile.mkdtemp(prefix="bwexec-", dir=scratch())
    shards = [cases[i::nproc] for i in range(nproc)]
    procs = []
    for k, shard in enumerate(shards):
        inp = os.path.join(d, "in%d.ndjson" % k)
        out = os.path.join(d, "out%d.ndjson" % k)
        with open(inp, "w") as f:
            for c in shard:
                f.write(json.dumps(c, ensure_ascii=False) + "\n")
        e = dict(os.environ, RUST_BACKTRACE="0")
        e.pop("BLOCKWATCH_VERIF_TRACE", None)
        if env:
            e.update(env)
        if trace_dir:
            e["BLOCKWATCH_VERIF_TRACE"] = os.path.join(trace_dir, "shard%d.ndjson" % k)
        procs.append((k, shard, out, subprocess.Popen([BWEXEC, inp, out], env=e, stdout=subprocess.DEVNULL,
                                                      stderr=subprocess.DEVNULL)))
    results = {}
    deadline = time.time() + timeout_per_shard
    for k, shard, out, p in procs:
        hung = False
        try:
            p.wait(timeout=max(1, deadline - time.time()))
        except subprocess.TimeoutExpired:
            p.kill()
            p.wait()
            hung = True
        begun = None
        done = set()
        if os.path.exists(out):
            with open(out, errors="replace") as f:
                for line in f:
                    try:
                        r = json.loads(line)
                    except Exception:
                        continue
                    if "begin" in r:
                        begun = r["begin"]
                    else:
                        results[r["id"]] = r
                        done.add(r["id"])
        if hung or p.returncode != 0:
            # the case that began but did not finish crashed the process (abort/stack overflow) or hung
            if begun is not None and begun not in done:
                results[begun] = {"id": begun, "outcome": "hang" if hung else "abort",
                                  "exit": -1 if hung else p.returncode, "list": None, "report": None,
                                  "error": "process %s" % ("timed out" if hung else "died rc=%s" % p.returncode)}
                rest = [c for c in shard if c["id"] not in results]
                if rest:
                    results.update(run_bwexec(rest, nproc=1, trace_dir=None,
                                              timeout_per_shard=timeout_per_shard, env=env))
    shutil.rmtree(d, ignore_errors=True)
    return results


def _classify_cli(rc, stdout, stderr, want_list):
    """outcome: ok (report / listing produced) | error (exit 1 with a message) | reject (exit 2, command line) |
    panic | garbled | other.  A run is a report iff what it printed on stderr parses as the JSON report (or it printed
    nothing); an exit status 1 with any other text is an error -- whatever the wording or prefix of the message."""
    out = {"exit": rc, "list": None, "report": None, "error": None, "stdout": stdout, "stderr": stderr}
    if "panicked at" in stderr or rc in (101, 134) or rc < 0:
        out["outcome"] = "panic"
        out["error"] = stderr[-2000:]
    elif rc in (0, 1):
        st = stderr.strip()
        parsed = None
        if st:
            try:
                parsed = json.loads(st)
                if not isinstance(parsed, dict):
                    parsed = None
            except Exception:
                parsed = None
        if want_list and rc == 0:
            # `list` prints one JSON object on stdout -- `{}` when nothing is selected, never nothing at all
            out["outcome"] = "ok"
            try:
                out["list"] = json.loads(stdout)
                if not isinstance(out["list"], dict):
                    raise ValueError("not an object")
            except Exception:
                out["list"] = None
                out["outcome"] = "garbled"
        elif not want_list and (parsed is not None or not st) and not (rc == 1 and not st):
            out["outcome"] = "ok"
            out["report"] = parsed if parsed is not None else {}
        elif rc == 1:
            out["outcome"] = "error"
            out["error"] = stderr
        else:
            out["outcome"] = "garbled"
    elif rc == 2:
        out["outcome"] = "reject"
        out["error"] = stderr
    else:
        out["outcome"] = "other"
        out["error"] = stderr
    return out


def materialize(case, d):
    """Writes case['files'] under directory d and makes it look like a repository root."""
    os.makedirs(os.path.join(d, ".git"), exist_ok=True)
    for path, content in case.get("files", {}).items():
        full = os.path.join(d, path)
        os.makedirs(os.path.dirname(full), exist_ok=True)
        with open(full, "w", encoding="utf-8", newline="") as f:
            f.write(content)


def run_cli_one(case, workdir=None, timeout=20, trace_path=None):
    """Runs the real CLI binary for one case (same case format as bwexec, plus optional 'cwd'
    (root-relative start directory), 'env', 'taskset')."""
    own = workdir is None
    d = workdir or tempfile.mkdtemp(prefix="cli-", dir=scratch())
    try:
        if not case.get("premade"):
            materialize(case, d)
        env = dict(os.environ, RUST_BACKTRACE="0")
        for k in list(env):
            if k.startswith("BLOCKWATCH_"):
                env.pop(k)
        if case.get("terminal"):
            env["BLOCKWATCH_TERMINAL_MODE"] = "1"
        if trace_path:
            env["BLOCKWATCH_VERIF_TRACE"] = trace_path
        env.update(case.get("env") or {})
        cmd = [CLI] + list(case.get("args") or [])
        if case.get("taskset"):
            cmd = ["taskset", "-c", case["taskset"]] + cmd
        cwd = os.path.join(d, case["cwd"]) if case.get("cwd") else d
        stdin = (case.get("diff") or "") if not case.get("terminal") else ""
        t0 = time.time()
        try:
            p = subprocess.run(cmd, cwd=cwd, env=env, input=stdin.encode("utf-8"), stdout=subprocess.PIPE,
                               stderr=subprocess.PIPE, timeout=timeout)
        except subprocess.TimeoutExpired:
            # a slow run on a loaded machine is not a hang: only a run that also exceeds five times the limit is one
            try:
                p = subprocess.run(cmd, cwd=cwd, env=env, input=stdin.encode("utf-8"), stdout=subprocess.PIPE,
                                   stderr=subprocess.PIPE, timeout=max(60, timeout * 5))
            except subprocess.TimeoutExpired:
                return {"id": case["id"], "outcome": "hang", "exit": -1, "list": None, "report": None,
                        "error": "timeout %ss and again %ss" % (timeout, max(60, timeout * 5)), "stdout": "", "stderr": ""}
        r = _classify_cli(p.returncode, p.stdout.decode("utf-8", "replace"), p.stderr.decode("utf-8", "replace"),
                          "list" in (case.get("args") or []))
        r["id"] = case["id"]
        r["wall"] = time.time() - t0
        return r
    finally:
        if own:
            shutil.rmtree(d, ignore_errors=True)


def run_cli(cases, nthreads=None, timeout=20, trace_dir=None):
    if not cases:
        return {}
    results = {}
    with cf.ThreadPoolExecutor(max_workers=nthreads or NCPU) as ex:
        futs = {}
        for c in cases:
            tp = os.path.join(trace_dir, "cli-%s.ndjson" % c["id"]) if trace_dir else None
            futs[ex.submit(run_cli_one, c, None, timeout, tp)] = c
        for f in cf.as_completed(futs):
            r = f.result()
            results[r["id"]] = r
    return results


# ------------------------------------------------------------------------------------------------
# verdict bookkeeping, evidence
# ------------------------------------------------------------------------------------------------
def load_known():
    p = os.path.join(ROOT, "known_findings.json")
    if os.path.exists(p):
        return json.load(open(p))
    return {"findings": [], "fixed": []}


class Check:
    def __init__(self, pid, tier, seed, level="model_checking"):
        self.pid, self.tier, self.seed, self.level = pid, tier, seed, level
        self.t0 = time.time()
        self.evaluations = 0
        self.nontrivial = set()
        self.nontrivial_count = 0
        self.states = 0
        self.transitions = 0
        self.traces = 0
        self.samples = []
        self.violations = []
        self.known_hits = {}
        self.drift = 0
        self.gray = 0
        self.rule = ""
        self.exhaustive = False
        self.notes = {}
        self.assumptions = []
        self.rng = random.Random(seed)
        self.known = [f for f in load_known().get("findings", []) if f.get("property") == pid]
        os.makedirs(REPLAYS, exist_ok=True)

    # -- TLC accounting
    def add_tlc(self, res, what):
        if res.violation or not res.ok:
            sys.stderr.write(res.violation or res.out_tail)
            sys.stderr.write("\n")
            # A TLC invariant violation at design level is reported by the caller; anything else is a tool error.
            raise ToolError("TLC failed for %s" % what)
        self.states += res.distinct
        self.transitions += res.generated
        self.notes.setdefault("tlc_runs", []).append(
            {"what": what, "distinct": res.distinct, "generated": res.generated, "wall_s": round(res.wall, 1),
             "cases": len(res.cases)})

    def sample(self, s, cap=6):
        if len(self.samples) < cap:
            self.samples.append(s)

    def count(self, key=None, nontrivial=True):
        self.evaluations += 1
        if nontrivial:
            if key is None:
                self.nontrivial_count += 1
            else:
                self.nontrivial.add(key)

    # -- verdicts
    def known_match(self, tags):
        """tags: iterable of finding ids that fully explain a failing case (decided by the spec's
        deviation switches).  Returns the matching listed finding id or None."""
        for f in self.known:
            if f["id"] in tags:
                return f["id"]
        return None

    def violation(self, what, replay_obj, explained_by=()):
        fid = self.known_match(explained_by)
        if fid:
            self.known_hits[fid] = self.known_hits.get(fid, 0) + 1
            return False
        if len(self.violations) < 50:
            name = "%s-%s-%d.json" % (self.pid, self.tier, len(self.violations))
            path = os.path.join(REPLAYS, name)
            with open(path, "w") as f:
                json.dump({"property": self.pid, "what": what, "case": replay_obj}, f, indent=1, ensure_ascii=False,
                          default=str)
            self.violations.append((what, path))
        else:
            self.violations.append((what, self.violations[-1][1]))
        return True

    def finish(self):
        wall = time.time() - self.t0
        for f in self.known:
            if self.known_hits.get(f["id"]):
                print("KNOWN-FINDING: property=%s %s: %s (%d cases)" % (self.pid, f["id"], f["what"],
                                                                         self.known_hits[f["id"]]))
        shown = set()
        for what, path in self.violations[:50]:
            if path in shown:
                continue
            shown.add(path)
            print("VIOLATION property=%s replay=%s" % (self.pid, path))
            print("  " + what[:300])
        distinct = len(self.nontrivial) + self.nontrivial_count
        cov = {
            "evaluations": self.evaluations,
            "distinct_nontrivial": distinct,
            "rule": self.rule,
            "samples": self.samples or ["(none)"],
            "states": self.states,
            "transitions": self.transitions,
            "traces_validated_against_impl": self.traces,
            "exhaustive": self.exhaustive,
            "gray_cases": self.gray,
            "drift_cases": self.drift,
            "known_finding_hits": self.known_hits,
        }
        cov.update(self.notes)
        if SKIPPED_TRACES:
            cov["trace_validations_timed_out_inconclusive"] = SKIPPED_TRACES[:20]
        if TLC_INTERNAL_RETRIES:
            cov["tlc_internal_exceptions_retried"] = TLC_INTERNAL_RETRIES[:10]
        ev = {
            "property_id": self.pid,
            "tier": self.tier,
            "seed": self.seed,
            "level": self.level,
            "coverage": cov,
            "assumptions": self.assumptions,
            "wall_s": round(wall, 2),
            "violations": len(self.violations),
        }
        os.makedirs(EVIDENCE, exist_ok=True)
        tmp = os.path.join(EVIDENCE, self.pid + ".json.tmp")
        with open(tmp, "w") as f:
            json.dump(ev, f, indent=1, ensure_ascii=False, default=str)
        os.replace(tmp, os.path.join(EVIDENCE, self.pid + ".json"))
        print("%s %s: evaluations=%d nontrivial=%d states=%d traces=%d gray=%d drift=%d violations=%d wall=%.1fs" % (
            self.pid, self.tier, self.evaluations, distinct, self.states, self.traces, self.gray, self.drift,
            len(self.violations), wall))
        return 1 if self.violations else 0
