#!/usr/bin/env python3
"""Regenerates MANIFEST.json from the table below (kept in one place so it stays valid)."""
import json
import os

ROOT = os.path.dirname(os.path.dirname(os.path.abspath(__file__)))

CHECKS = {}   # pid -> dict(level, text, note, technique, design_ref)
NA = {}       # pid -> reason


def claim(pid, category, text, note, technique, ref):
    CHECKS[pid] = dict(category=category, text=text, note=note, technique=technique, ref=ref)


PURE = ("TLC enumerates the whole bounded input space of the TLA+ module and checks the implementation-shaped loop "
        "against the declarative contract; every behaviour is replayed against the real code (spec -> impl), and "
        "recorded executions on long random blocks are checked by TLC against the same contract (impl -> spec). "
        "For this pure function TLC contributes exhaustive generation and a derived oracle, not interleavings.")

claim("C06", "model_checking", "keep-sorted: " + PURE,
      "Trusted: the concretiser's spelling table (asserted against Python re), the projection of recorded blocks to "
      "line records, rustc/regex semantics for the fixed pattern family. Numeric keys outside -?d+(.d)? are gray.",
      "TLA+ spec Rules.tla (SortStep loop vs BadSorted contract) model-checked with TLC; spec->impl replay of every "
      "TLC behaviour; impl->spec trace validation (TraceRules.tla)", "DESIGN.md §6 C06-C09")
claim("C07", "model_checking", "keep-unique: " + PURE,
      "Trusted: concretiser spelling table, projection, regex semantics of the two fixed patterns.",
      "TLA+ spec Rules.tla (UniqueStep loop vs BadUnique contract) model-checked with TLC; spec->impl replay; "
      "impl->spec trace validation (TraceRules.tla)", "DESIGN.md §6 C06-C09")
claim("C08", "model_checking", "line-pattern: " + PURE,
      "Trusted: the three regexes are modelled as predicates over code-point sequences (asserted on the alphabet).",
      "TLA+ spec Rules.tla (PatternStep loop vs BadPattern contract) model-checked with TLC; spec->impl replay; "
      "impl->spec trace validation (TraceRules.tla)", "DESIGN.md §6 C06-C09")
claim("C09", "model_checking", "line-count: " + PURE,
      "Trusted: concretiser layouts (content after the tag line / on the tag's line / same comment).",
      "TLA+ spec Rules.tla (CountStep loop vs NonBlank contract) model-checked with TLC; spec->impl replay in three "
      "layouts; impl->spec trace validation (TraceRules.tla)", "DESIGN.md §6 C06-C09")

DT = ("TLC enumerates every edit script (<= MaxOps ops over K/D/I/M plus the terminator-only ops N/n of the file's last "
      "line) x block placement x comment layout x "
      "character-level edit kind of DiffTouch.tla, checks that the ideal walk meets the three-valued contract "
      "(MUST / MUSTNOT / gray) and that the stepwise DiffWalk actions equal the recursive walk, and emits for every "
      "behaviour the contract plus the prediction of the as-coded walk under each repair of the named deviations; "
      "every behaviour is replayed in-process with a synthesised git diff and a sample through real git + the CLI. ")
claim("C01", "model_checking", DT + "Failures are excused only when a listed known finding (DV1/DV2/DV2p) explains them "
      "exactly (as-coded model == observation, repaired model meets the contract).",
      "Trusted: the concretiser's layout table (columns asserted against the spec constants), the diff synthesiser "
      "(cross-checked against git on every CLI case), tree-sitter-javascript comment recognition. Gray: ops touching or "
      "adjoining tag lines, tag-line rewrites inside larger change groups.",
      "TLA+ spec DiffTouch.tla (DiffWalk actions + Touch operators vs edit-script contract) model-checked with TLC; "
      "Affects.tla (two-pass validator vs per-reference contract) and DiffText.tla (unidiff outer loop) likewise; "
      "spec->impl replay of every behaviour (bwexec, real git + CLI); impl->spec trace validation of recorded diff "
      "walks and touch flags (TraceDiff.tla) incl. large random edits; deviation switches attribute known findings",
      "DESIGN.md §6 C01")
claim("C02", "model_checking", DT + "Every block carries an always-violated rule, so selection is visible in the report; "
      "with a path argument every block of the file must be reported.",
      "Trusted: as C01. Gray: edits on region edges (first/last character of the tag, comment delimiters).",
      "TLA+ spec DiffTouch.tla (selection contract MustSelect/MustNotSelect) model-checked with TLC; spec->impl replay "
      "(list + run + run-with-matching-glob + run-with-non-matching-glob per behaviour); impl->spec trace validation "
      "(TraceDiff.tla: flags recomputed from logged geometry and ranges); deviation switches attribute known findings",
      "DESIGN.md §6 C02")

RUNTXT = ("TLC explores Run.tla -- one action per critical section of validators::run / run_sync_validators / "
          "run_async_validators and of the check-lua / check-ai task loops -- for every outcome assignment and every "
          "interleaving within the bounds and checks the invariants named below in every state; every outcome "
          "assignment is emitted with the verdict all interleavings must produce, realised as a repository and run "
          "through the real CLI; hook traces of the runs are validated against Run.tla / Detect.tla by TraceRun.tla / "
          "TraceDetect.tla (every logged event must be an enabled spec action, logged accumulators must equal the "
          "spec's, all invariants evaluated in every state). ")
claim("C11", "model_checking", RUNTXT + "Invariants: NoLostNoDup, ExitIffError, SilentWhenClean; plus list mode on a sample.",
      "Trusted: the scenario concretiser (rule spellings that violate / do not violate), the hook placement (events "
      "under one mutex with a global sequence number), tokio/std thread semantics as abstracted in Run.tla.",
      "TLA+ spec Run.tla model-checked with TLC (all interleavings); spec->impl replay of every TLC outcome assignment "
      "through the CLI; impl->spec trace validation (TraceRun.tla, TraceDetect.tla)", "DESIGN.md §6 C11")

claim("C13", "model_checking", "TLC enumerates every token sequence of each rule-attribute grammar of RuleSyntax.tla "
      "(line-count expression, sort direction, sort format, severity, affects references, regex) with the verdict "
      "valid / invalid / gray, and model-checks Run!FailClosed (an Err of any validator or block task ends the run in "
      "Error under every interleaving); each emitted value is placed on a block among clean, violating and warning "
      "neighbours in either file and run in-process (all) and through the CLI (sample); an explicit battery covers the "
      "script / condition / key / numeric-key malformations.",
      "Trusted: token spellings; the un-hedged contexts built by the concretiser (block with content, modified block, "
      "violating block). Gray: bracket classes, '**' and duplicate group names in regexes; a single non-numeric key.",
      "TLA+ specs RuleSyntax.tla (validity predicates, exhaustive token enumeration by TLC) and Run.tla (FailClosed over "
      "all interleavings); spec->impl replay of every emitted value", "DESIGN.md §6 C13")

claim("C14", "model_checking", "TLC enumerates every -d/-e invocation of Flags.tla (<= MaxArgs flags over the seven names "
      "and look-alikes; long invocations over three names) with the contract verdict (rejected / effective set; "
      "order- and multiplicity-free) and model-checks Detect.tla (DetectComplete, OnlyEffective, Conservation) for every "
      "needs assignment, every effective set and every visiting order; every emitted invocation is run through the CLI on "
      "generated repositories in which each validator has 0..2 violations (diff mode), repeatedly (fresh HashMap order "
      "per process); rejected invocations must leave no Lua call log and no AI request; the detector loops of the runs "
      "are validated by TraceDetect.tla.",
      "Trusted: repository generator, projection of logged block attributes to the detectors that fire.",
      "TLA+ specs Flags.tla and Detect.tla model-checked with TLC; spec->impl replay of every invocation through the CLI; "
      "impl->spec trace validation (TraceDetect.tla, TraceRun.tla)", "DESIGN.md §6 C14")
claim("C18", "model_checking", RUNTXT + "Invariants: AtMostOnce, ExactlyOnceOnSuccess, OneDiagnosticPerString, FailClosed, "
      "CompleteOnReport. Scripts use busy-loops to permute completion order; 1/2/16 runtime workers, CPU pinning; error "
      "classes rotate over runtime error, syntax error, missing validate, non-string results; payload echo runs compare "
      "ctx.file / ctx.line / attrs / content with the blocks as written; 17..40-block runs with fast failing scripts.",
      "Trusted: Lua scripts written by the concretiser, the script-side call log (BLOCKWATCH_LUA_MODE=safe). Real "
      "schedules are sampled, not enumerated; exhaustive interleaving coverage exists at the specification level and "
      "is tied to the code by trace validation of the sampled runs.",
      "TLA+ spec Run.tla (LuaTask actions) model-checked with TLC; spec->impl replay of every outcome assignment; "
      "impl->spec trace validation (TraceRun.tla)", "DESIGN.md §6 C18")
claim("C19", "model_checking", RUNTXT + "The endpoint is an environment process of Run.tla (reply OK / other text / fault; "
      "missing key before any send). Invariants: OneRequest, OneDiagnosticPerString, FaultFailsClosed, FailClosed. A "
      "scripted fake endpoint records every request; fidelity runs compare the recorded request (path, authorization, "
      "model, user message) byte for byte with the block as written.",
      "Trusted: the fake endpoint; 5xx/429 (retried by the client) and TLS/proxies are not modelled.",
      "TLA+ spec Run.tla (AiTask actions, endpoint as environment) model-checked with TLC; spec->impl replay against a "
      "scripted fake endpoint; impl->spec trace validation (TraceRun.tla)", "DESIGN.md §6 C19")
claim("C20", "model_checking", "Determinism is an invariant of the nondeterministic specs: Run!Deterministic over every "
      "interleaving and Detect!DetectComplete over every visiting order (TLC, exhaustive within bounds). Generated "
      "inputs (Run outcome assignments emitted by TLC; a multi-file diff with modified / new / deleted files in every "
      "section order; blocks sharing one stateful Lua script) are run repeatedly under varied runtime workers, CPU "
      "pinning, start directory, file creation order; all runs of an input must agree and match the TLC verdict.",
      "Real schedules and hash seeds are sampled (R runs per input).",
      "TLA+ specs Run.tla / Detect.tla model-checked with TLC (determinism as invariant over all schedules); repeated "
      "replay of TLC-emitted inputs under schedule / order / location variation", "DESIGN.md §6 C20")

claim("C03", "model_checking", "TLC enumerates every file of Pairing.tla (sequence of code lines, string/markup decoys "
      "holding tags, comments with 0..2 tags), checks the implementation-shaped stack machine (PushStart / PopEnd / "
      "ErrUnexpectedEnd / ErrUnclosed / FinishSort) against the declarative well-nested matching (ErrIffUnbalanced, "
      "PairsAreTheMatching, SourceOrder) and emits the expected pairs; every balanced file is rendered for each of the "
      "39 suffixes in that language's comment forms with by-construction line, byte column and content bytes and "
      "compared with `list` and with the content range of the block hook events.",
      "Trusted: the language table (which spellings are comments in each language; three calibrated extents: Rust "
      "///,//! and Markdown [//]: nodes include their line terminator; CR of CRLF after a line comment is gray). "
      "tree-sitter grammars are black boxes. Markdown files are homogeneous (only [//]: or only HTML comments) "
      "because of finding M1.",
      "TLA+ spec Pairing.tla model-checked with TLC; spec->impl replay of every emitted file in 39 suffixes x comment "
      "forms with constructed ground truth; impl->spec trace validation of recorded push/pop events (TracePairing.tla)",
      "DESIGN.md §6 C03")
claim("C05", "model_checking", "TLC enumerates every attribute list x layout x look-alike noise of TagSyntax.tla, checks the "
      "token-level scanner (TryStart / TryEnd / SkipLt per '<' candidate) against the round-trip contract and emits the "
      "expected attribute map (last duplicate wins); each case is rendered into a Rust block comment, a Python line "
      "comment or a Markdown HTML comment and the listed attributes, line and byte column are compared. For this pure "
      "function TLC contributes exhaustive generation and a derived oracle, not interleavings.",
      "Trusted: the spelling tables of values and look-alikes (quoted values never contain their own quote; an "
      "unterminated quote is placed in a comment of its own).",
      "TLA+ spec TagSyntax.tla model-checked with TLC; spec->impl replay of every behaviour (bwexec, CLI sample)",
      "DESIGN.md §6 C05")
claim("C12", "model_checking", "Pairing.tla: TLC checks err = none <=> WellNested for every tag stream within the bounds; "
      "every unbalanced file is rendered for each of the 39 suffixes, alone and among healthy files, and run in scan, "
      "list, glob and diff mode: non-zero exit, an error naming the damaged file, no report or listing.",
      "Trusted: language table as in C03.",
      "TLA+ spec Pairing.tla model-checked with TLC; spec->impl replay of every unbalanced file (bwexec all, CLI sample); "
      "impl->spec trace validation (TracePairing.tla, TraceSystem.tla: a parse failure ends the run at once)",
      "DESIGN.md §6 C12")

claim("C10", "model_checking", "TLC enumerates every comment layout x content line of the offending key x key column x key "
      "length of Ranges.tla and checks the range arithmetic of the validators against the true position (the first coding "
      "deviated exactly when the comment continues after the tag's line or the key sits on the comment's last line -- "
      "repaired in /repo); every case is rendered for sort / unique (regex key in the middle of a line, ASCII and "
      "multi-byte text before it) / pattern violations and for line-count / Lua / AI / affects violations (range = start "
      "tag) with by-construction byte positions. For this pure function TLC contributes exhaustive generation and a "
      "derived oracle, not interleavings.",
      "Trusted: the layout renderer (asserted against the spec's layout numbers: tag line, continuation lines, comment "
      "end column; key position cross-checked between spec and concretiser).",
      "TLA+ spec Ranges.tla model-checked with TLC; spec->impl replay of every layout with constructed ground truth",
      "DESIGN.md §6 C10")

claim("C15", "model_checking", "TLC checks Scope.tla -- the walk loop and the diff loop of parse_blocks as actions, in every "
      "file order -- against the set-algebra contract Examined = ((Walk \\ Hidden \\ GitIgnored) /\\ Allow \\/ DiffFiles) "
      "\\ Ignore with the four documented glob forms written out and exactly one leading b/ removed from diff paths, over a "
      "tree with nested directories, directories named a and b, a name with a space, a name git writes as a quoted string "
      "in diff headers (non-ASCII; switch FixQ1), a directory named like a file, a hidden and a git-ignored file; each "
      "emitted scenario (globs x ignore globs x diff subset x interactive or not) is materialised on disk -- files out of "
      "scope carry an unclosed tag, so any leak is an error -- and listed through the real CLI from the root or a "
      "sub-directory.",
      "Trusted: glob spellings of the four forms; the `ignore` and `globset` crates are exercised for real (real tree, "
      "real .gitignore).",
      "TLA+ spec Scope.tla model-checked with TLC; spec->impl replay of emitted scenarios on real directory trees via the "
      "CLI; impl->spec trace validation of the recorded walk / diff loops (TraceScope.tla)", "DESIGN.md §6 C15")

claim("C04", "exploration", "The specification's terminal states are Report (exit 0/1) and Error (exit 1): there is no crash "
      "state, and every run made for any property is also checked against that (trace specs reject other endings). "
      "Soup.tla is the generator: TLC enumerates EVERY token sequence up to MaxLen per language family (comment "
      "delimiters, tag fragments incl. an unterminated quoted attribute, quotes, brackets, <, >, newline, CR, 2-byte / "
      "NBSP / emoji / combining characters) and per diff line class (headers, hunk headers, body lines that look like "
      "headers, multi-byte -/+ pairs); each soup is parsed under the suffixes of its family in scan, list and diff mode "
      "(diff = the soup against itself with one character changed into a sibling sharing its leading UTF-8 bytes) with "
      "panic capture and a watchdog; a sample runs through the real CLI (exit status 0/1 only). Deep.tla is the second "
      "generator: every (construct, depth) pair -- operator chains, brackets, markup, tag nesting, long lines and "
      "comments, and the constructs a grammar's external scanner keeps on a stack (indentation, heredocs, raw strings, "
      "templates, YAML block maps, Markdown containers) at depths 1..20000 -- through the real process in list, scan and "
      "diff mode; the as-coded model carries the named deviation DP1 (unbounded scanner stack aborts in tree-sitter), to "
      "which a crash is attributed only where the model predicts it and the process died in that assertion.",
      "Exploration, not a decision procedure over all UTF-8 strings: exhaustive over a finite token space. Diffs that "
      "git cannot produce (a +++ header without ---) are excluded: the unidiff dependency panics on them.",
      "TLA+ specs Soup.tla (token sequences built by an Extend action) and Deep.tla (construct x depth, deviation switch "
      "FixDP1) as exhaustive generators (TLC) + terminal-state contract; replay of every soup in-process (catch_unwind, "
      "watchdog), a CLI sample, every Deep pair through the real process", "DESIGN.md §6 C04, §7.2 DP1")
claim("C16", "model_checking", "TLC enumerates every base name (<= MaxComp dot-separated components over a component alphabet "
      "with registered, upper-cased, compound and unknown suffixes, empty components) x one of 7 -E remappings of "
      "Grammar.tla and checks the dot-walk (TrySuffix / FallbackWholeName) against GrammarOf, with the 39-entry table as "
      "a constant of the specification; each name is created in directories whose names contain dots, several files per "
      "run, with a body that is a valid block only in the expected family's comment syntax and an unclosed tag in the "
      "other families' syntaxes; plus every registered suffix in the shapes the statement lists.",
      "Grammars are distinguished at the level of comment-syntax families (c / hash / xml / css / sql), not within a "
      "family. Gray: which of two different candidate suffixes wins is observable only through compound remap keys.",
      "TLA+ spec Grammar.tla model-checked with TLC; spec->impl replay of every emitted name (bwexec, CLI sample)",
      "DESIGN.md §6 C16")
claim("C17", "model_checking", "For every value of BLOCKWATCH_LUA_MODE a probe script run by the real binary records, from "
      "inside the interpreter, the object graph reachable from _G, the string metatable and every metatable, and "
      "exercises each dangerous capability; LuaCaps.tla models every script as a sequence of primitive moves (index a "
      "held table, take a metatable) over that graph -- TLC reaches the fixed point of what any script can hold -- and "
      "checks the per-mode policy: allowed globals, capability class of every held function (unclassified = "
      "violation), forbidden capabilities do not work, granted ones do, the probe's closure equals the fixed point.",
      "Trusted: Lua has no ambient authority (a script can only use what it can reach); the Lua C implementation of "
      "the allow-listed functions; crafted bytecode given to load is out of scope.",
      "TLA+ spec LuaCaps.tla checked with TLC over the object graph recorded from the real interpreter (impl->spec), "
      "per mode value", "DESIGN.md §6 C17")



def main():
    props = [json.loads(l)["id"] for l in open(os.path.join(ROOT, "properties.jsonl"))]
    checks = []
    for pid in props:
        if pid not in CHECKS:
            continue
        c = CHECKS[pid]
        checks.append({
            "property_id": pid,
            "quick_cmd": "python3 tools/check.py %s --tier quick" % pid,
            "thorough_cmd": "python3 tools/check.py %s --tier thorough" % pid,
            "evidence_file": "/verif/evidence/%s.json" % pid,
            "replay_cmd_template": "python3 tools/check.py %s --replay {path}" % pid,
            "engine": "tlc+replay",
            "level_claimed": {"category": c["category"], "text": c["text"], "design_ref": c["ref"]},
            "level_note": c["note"],
            "technique": c["technique"],
        })
    m = {
        "version": 1,
        "setup_cmd": "python3 tools/check.py --setup",
        "hooks": {
            "guard": "cargo feature `verif`",
            "enable": "cargo build --release --offline --features verif (tools/vlib.py build(): bwexec via path "
                      "dependency with features=[\"verif\"], CLI via --manifest-path /repo/Cargo.toml --features verif); "
                      "events are written only when BLOCKWATCH_VERIF_TRACE=<file> is set",
            "baseline_off_cmd": "cd /repo && cargo test --workspace --no-fail-fast --offline",
            "source_commits": HOOK_COMMITS,
            "add_only": True,
        },
        "engines": [
            {"name": "tlc+replay", "path": "tools/check.py",
             "serves_properties": [c["property_id"] for c in checks],
             "kind_free_text": "TLA+ specs under spec/ model-checked by TLC; TLC-emitted behaviours replayed against "
                               "the real code (harness/bwexec in-process, real CLI); hook traces validated by "
                               "spec/trace/Trace*.tla"},
        ],
        "checks": checks,
        "not_applicable": [{"property_id": p, "reason": NA[p]} for p in props if p in NA and p not in CHECKS],
        "notes": "Exit codes: 0 held, 1 VIOLATION line(s), 2 tool error. Known findings: /verif/known_findings.json.",
    }
    with open(os.path.join(ROOT, "MANIFEST.json"), "w") as f:
        json.dump(m, f, indent=1)
    print("wrote MANIFEST.json: %d checks, %d not_applicable" % (len(checks), len(m["not_applicable"])))


HOOK_COMMITS = ["26c7fa0", "46cd409"]

if __name__ == "__main__":
    main()
