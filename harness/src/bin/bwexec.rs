//! bwexec — dumb in-process executor for blockwatch cases.
//!
//! Reads ndjson cases from the file given as argv[1] (or stdin), re-composes `main.rs` from the
//! public API of the `blockwatch` crate over an in-memory file system, and writes one ndjson result
//! per case to argv[2] (or stdout). It carries no expectations: those come from the TLA+ side.
//!
//! case   = {"id":…, "files":{path:content}, "diff":str|null, "args":[…], "terminal":bool,
//!           "walk_rev":bool}
//! result = {"id":…, "outcome":"ok"|"error"|"reject"|"panic", "exit":n, "list":{…}|null,
//!           "report":{file:[diag]}|null, "error":str|null}
use blockwatch::blocks::{self, BlockSeverity, FileSystem};
use blockwatch::{diff_parser, flags, language_parsers, validators};
use clap::Parser;
use globset::GlobSet;
use serde_json::{Value, json};
use std::collections::{BTreeMap, HashMap};
use std::io::{BufRead, BufReader, BufWriter, Write};
use std::panic::{AssertUnwindSafe, catch_unwind};
use std::path::{Path, PathBuf};
use std::sync::{Arc, Mutex};

struct MemFs {
    files: BTreeMap<String, String>,
    rev: bool,
}

impl FileSystem for MemFs {
    fn read_to_string(&self, path: &Path) -> anyhow::Result<String> {
        self.files
            .get(&path.display().to_string())
            .cloned()
            .ok_or_else(|| anyhow::anyhow!("Failed to read file \"{}\"", path.display()))
    }

    fn walk(&self) -> impl Iterator<Item = anyhow::Result<PathBuf>> {
        let mut keys: Vec<&String> = self.files.keys().collect();
        if self.rev {
            keys.reverse();
        }
        keys.into_iter()
            // hidden files are not walked by the real walker either
            .filter(|p| !p.split('/').any(|c| c.starts_with('.')))
            .map(|p| Ok(PathBuf::from(p)))
            .collect::<Vec<_>>()
            .into_iter()
    }
}

enum Outcome {
    List(Value),
    Report(Value, i32),
}

fn run_case(case: &Value) -> anyhow::Result<Outcome> {
    let mut argv: Vec<String> = vec!["blockwatch".into()];
    if let Some(a) = case["args"].as_array() {
        argv.extend(a.iter().map(|x| x.as_str().unwrap_or("").to_string()));
    }
    let args = match flags::Args::try_parse_from(&argv) {
        Ok(a) => a,
        Err(e) => return Err(anyhow::anyhow!("CLAP-REJECT: {}", e.kind())),
    };
    let languages = language_parsers::language_parsers()?;
    let supported_extensions = languages.keys().collect();
    args.validate(&supported_extensions)?;

    let mut glob_set = args.globs()?;
    let is_terminal = case["terminal"].as_bool().unwrap_or(false);
    if glob_set.is_empty() && is_terminal {
        glob_set = GlobSet::new([globset::Glob::new("**")?])?
    }
    let should_scan_files = !glob_set.is_empty();
    let path_checker = blocks::PathCheckerImpl::new(glob_set, args.ignored_globs()?);
    let mut files = BTreeMap::new();
    if let Some(m) = case["files"].as_object() {
        for (k, v) in m {
            files.insert(k.clone(), v.as_str().unwrap_or("").to_string());
        }
    }
    let file_system = MemFs {
        files,
        rev: case["walk_rev"].as_bool().unwrap_or(false),
    };
    let modified_lines_by_file = if !is_terminal {
        diff_parser::line_changes_from_diff(case["diff"].as_str().unwrap_or(""))?
    } else {
        HashMap::new()
    };
    let blocks = blocks::parse_blocks(
        modified_lines_by_file,
        should_scan_files,
        &file_system,
        &path_checker,
        languages,
        args.extensions(),
    )?;
    let context = validators::ValidationContext::new(blocks);
    if matches!(args.command, Some(flags::SubCommand::List { .. })) {
        let report = context.to_serializable_report();
        return Ok(Outcome::List(serde_json::to_value(report)?));
    }
    let (sync_validators, async_validators) = validators::detect_validators(
        &context,
        validators::DETECTOR_FACTORIES,
        &args.disabled_validators(),
        &args.enabled_validators(),
    )?;
    let violations = validators::run(Arc::new(context), sync_validators, async_validators)?;
    let mut has_error = false;
    let mut diagnostics: BTreeMap<String, Vec<Value>> = BTreeMap::new();
    for (file_path, file_violations) in violations {
        let mut file_diagnostics = Vec::new();
        for violation in file_violations {
            let diagnostic = violation.as_simple_diagnostic();
            if diagnostic.severity() == BlockSeverity::Error {
                has_error = true;
            }
            file_diagnostics.push(serde_json::to_value(diagnostic)?);
        }
        diagnostics.insert(file_path.display().to_string(), file_diagnostics);
    }
    Ok(Outcome::Report(
        serde_json::to_value(diagnostics)?,
        if has_error { 1 } else { 0 },
    ))
}

fn main() -> anyhow::Result<()> {
    let argv: Vec<String> = std::env::args().collect();
    let input: Box<dyn BufRead> = match argv.get(1).map(String::as_str) {
        Some("-") | None => Box::new(BufReader::new(std::io::stdin())),
        Some(p) => Box::new(BufReader::new(std::fs::File::open(p)?)),
    };
    let mut output: Box<dyn Write> = match argv.get(2).map(String::as_str) {
        Some("-") | None => Box::new(BufWriter::new(std::io::stdout())),
        Some(p) => Box::new(BufWriter::new(std::fs::File::create(p)?)),
    };
    let last_panic: Arc<Mutex<Option<String>>> = Arc::new(Mutex::new(None));
    {
        let last_panic = Arc::clone(&last_panic);
        std::panic::set_hook(Box::new(move |info| {
            let loc = info
                .location()
                .map(|l| format!("{}:{}", l.file(), l.line()))
                .unwrap_or_default();
            let msg = if let Some(s) = info.payload().downcast_ref::<&str>() {
                s.to_string()
            } else if let Some(s) = info.payload().downcast_ref::<String>() {
                s.clone()
            } else {
                String::new()
            };
            let mut g = last_panic.lock().unwrap_or_else(|p| p.into_inner());
            if g.is_none() {
                *g = Some(format!("{loc}: {msg}"));
            }
        }));
    }
    for line in input.lines() {
        let line = line?;
        if line.trim().is_empty() {
            continue;
        }
        let case: Value = serde_json::from_str(&line)?;
        let id = case["id"].clone();
        // announce the case first so that a hang can be attributed by the driver
        writeln!(output, "{}", json!({"begin": id}))?;
        output.flush()?;
        if blockwatch::verif_trace::enabled() {
            blockwatch::verif_trace::emit("case", json!({"id": id}));
        }
        *last_panic.lock().unwrap_or_else(|p| p.into_inner()) = None;
        let res = catch_unwind(AssertUnwindSafe(|| run_case(&case)));
        let out = match res {
            Ok(Ok(Outcome::List(l))) => {
                json!({"id": id, "outcome": "ok", "exit": 0, "list": l, "report": null, "error": null})
            }
            Ok(Ok(Outcome::Report(r, exit))) => {
                json!({"id": id, "outcome": "ok", "exit": exit, "list": null, "report": r, "error": null})
            }
            Ok(Err(e)) => {
                let msg = format!("{e:#}");
                if msg.starts_with("CLAP-REJECT") {
                    json!({"id": id, "outcome": "reject", "exit": 2, "list": null, "report": null, "error": msg})
                } else {
                    json!({"id": id, "outcome": "error", "exit": 1, "list": null, "report": null, "error": msg})
                }
            }
            Err(_) => {
                let p = last_panic
                    .lock()
                    .unwrap_or_else(|p| p.into_inner())
                    .clone()
                    .unwrap_or_default();
                json!({"id": id, "outcome": "panic", "exit": 101, "list": null, "report": null, "error": p})
            }
        };
        if blockwatch::verif_trace::enabled() {
            blockwatch::verif_trace::emit(
                "case_end",
                json!({"id": id, "outcome": out["outcome"], "exit": out["exit"]}),
            );
        }
        writeln!(output, "{out}")?;
        output.flush()?;
    }
    Ok(())
}
